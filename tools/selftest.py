#!/venv/bin/python
"""setup_cmd: nothing to build (pure Python); compile every module and self-test the reference model."""
import os, sys, py_compile, glob
HERE = os.path.dirname(os.path.dirname(os.path.abspath(__file__)))
sys.path.insert(0, HERE)
os.makedirs(os.path.join(HERE, 'evidence'), exist_ok=True)
os.makedirs(os.path.join(HERE, 'replays'), exist_ok=True)
for f in glob.glob(os.path.join(HERE, '**', '*.py'), recursive=True):
    if '/seeded/' in f:
        continue
    compile(open(f).read(), f, 'exec')
from vf import refmodel as rm
n = 0
for r in range(-1, 5):
    for p in rm.descendants((), r):
        assert rm.decode(rm.encode(p)) == p
        n += 1
    assert len(rm.descendants((), r)) == rm.num_cells(r)
assert rm.ref_compact(rm.descendants((), 3)) == {()}
print('selftest ok: reference codec round-trips', n, 'paths')
# the schedule explorers are validated on a toy module whose behaviour under every schedule is known (tests/test_sched_toy.py)
import subprocess
r = subprocess.run([sys.executable, os.path.join(HERE, 'tests', 'test_sched_toy.py')], capture_output=True, text=True, timeout=300)
if r.returncode != 0:
    print(r.stdout + r.stderr)
    sys.exit(1)
print('selftest ok: schedule explorers (one and two preemptions) behave as predicted on the toy module')
