"""Oracles for compact (C08 coverage, C09 canonical form) evaluated on every state of the antichain lattice."""
import copy
from . import common, refmodel as rm, lattice

_ENC = {}


def enc(p):
    v = _ENC.get(p)
    if v is None:
        v = _ENC[p] = rm.encode(p)
        if len(_ENC) > 400000:
            _ENC.clear()
    return v


def key_of(state):
    return ';'.join('/'.join(map(str, p)) or 'W' for p in state)


def bases(tier, which='C09'):
    """(base antichain, deepest resolution splits may reach, edit depth k)"""
    out = []
    kw = 5 if tier == 'quick' else 6
    out.append(([()], 3, kw))
    kd = 3 if tier == 'quick' else 4
    for pair in ([(3,), (0, 3)], [(7,), (1, 2)], [(11,), (2, 1)], [(0,), (1,), (11,)], [(2,), (0, 2), (0, 3)], [(4,), (5,), (0, 4)]):
        out.append((pair, 3, kd))
    deep = []
    for r in (0, 1, 2, 5, 13, 26, 27, 28):
        for f, n, d in ((0, 0, 0), (11, 4, 3), (6, 2, 1)):
            if r == 0:
                deep.append((f,))
            elif r == 1:
                deep.append((f, n))
            else:
                deep.append((f, n) + (d,) * (r - 2) + ((d + 1) % 4,))
    for p in sorted(set(deep)):
        out.append(([p], min(rm.res(p) + 3, 29), (5 if which == 'C09' else 4) if tier == 'quick' else 5))
    return out


def run_compact(acc, a5, ids, kprefix, case):
    """call the real compact; returns output list or None (violation recorded)"""
    arg = list(ids)
    before = list(arg)
    try:
        out = a5.compact(arg)
    except Exception as e:
        acc.violation(f'{kprefix}:raises', f'compact raised {e!r} on {len(ids)} cells', case)
        return None
    if arg != before:
        acc.violation(f'{kprefix}:input-mutated', 'compact modified its argument list', case)
        return None
    if not isinstance(out, list) or any(not isinstance(x, int) for x in out):
        acc.violation(f'{kprefix}:bad-type', f'compact returned {type(out).__name__}', case)
        return None
    return out


def decode_all(acc, out, kprefix, case):
    paths = []
    for x in out:
        p = rm.decode(x)
        if p is None:
            acc.violation(f'{kprefix}:invalid-id', f'compact returned {x:#x}, which is not a valid cell id', case)
            return None
        paths.append(p)
    return paths


def check_c09(acc, a5, state, trace, perms_upto):
    """state: antichain (tuple of paths)"""
    acc.n['states'] += 1
    ids = [enc(p) for p in state]
    want = rm.ref_compact(state)
    want_ids = frozenset(enc(p) for p in want)
    k = key_of(state)
    case = {'state': [list(p) for p in state], 'trace': [[op, list(x)] for op, x in trace]}
    if len(want) != len(state):
        acc.n['nontrivial'] += 1          # something has to merge
    ok = True
    for pres in lattice.presentations(ids, perms_upto, common.seed()):
        acc.n['transitions'] += 1
        out = run_compact(acc, a5, pres, f'c09:{k}', case)
        if out is None:
            ok = False
            break
        if len(out) != len(set(out)):
            acc.violation(f'c09:{k}:repeat', 'compact output lists a cell twice', case)
            ok = False
            break
        if frozenset(out) != want_ids:
            paths = decode_all(acc, out, f'c09:{k}', case)
            if paths is None:
                ok = False
                break
            grp = rm.has_complete_group(paths)
            if grp is not None and rm.ref_compact(paths) == want:
                acc.violation(f'c09:{k}:not-minimal', f'compact left the complete sibling group under {grp} un-merged ({len(out)} cells, canonical {len(want_ids)})', case)
            else:
                acc.violation(f'c09:{k}:not-canonical', f'compact output ({len(out)} cells) is not the canonical set ({len(want_ids)} cells)', case)
            ok = False
            break
        acc.n['validated'] += 1
    if ok:
        # idempotence
        out2 = run_compact(acc, a5, sorted(want_ids), f'c09:{k}:idem', case)
        acc.n['transitions'] += 1
        if out2 is not None:
            if frozenset(out2) != want_ids or len(out2) != len(want_ids):
                acc.violation(f'c09:{k}:not-idempotent', 'compacting the compacted set changes it', case)
            else:
                acc.n['validated'] += 1
        acc.outcome(hash(want_ids))
    return ok


def check_c08_list(acc, a5, paths, kprefix, case, expand_limit=1024):
    """coverage(compact(X)) == coverage(X) for an arbitrary list of paths (overlaps and duplicates allowed)"""
    ids = [enc(p) for p in paths]
    want = rm.ref_compact(paths)       # canonical form == same region (unique minimal antichain of a region)
    for pi, pres in enumerate((ids, list(reversed(ids)), ids + ids[:1])):
        acc.n['transitions'] += 1
        out = run_compact(acc, a5, pres, kprefix, case)
        if out is None:
            return False
        op = decode_all(acc, out, kprefix, case)
        if op is None:
            return False
        got = rm.ref_compact(op)
        if got != want:
            acc.violation(f'{kprefix}:coverage', f'compact changed the covered region (canonical forms differ: {len(got)} vs {len(want)} cells)', case)
            return False
        # literal statement on small cases: expand both sides to the finest level present
        rmax = max((rm.res(p) for p in paths), default=-1)
        size = sum(rm.num_desc(rm.res(p), rmax) for p in set(paths))
        if pi == 0 and size <= expand_limit and rmax >= 0:
            a = rm.ref_cover(paths, rmax)
            try:
                b = set(a5.uncompact(out, rmax))
            except Exception as e:
                acc.violation(f'{kprefix}:uncompact-raises', f'uncompact(compact(X), {rmax}) raised {e!r}', case)
                return False
            if b != {enc(p) for p in a}:
                acc.violation(f'{kprefix}:coverage-expanded', f'set(uncompact(compact(X), {rmax})) differs from the cells covered by X', case)
                return False
            acc.n['expanded'] += 1
        acc.n['validated'] += 1
    return True


def check_c08(acc, a5, state, trace, overlap_limit):
    acc.n['states'] += 1
    k = key_of(state)
    case = {'state': [list(p) for p in state], 'trace': [[op, list(x)] for op, x in trace]}
    if not check_c08_list(acc, a5, list(state), f'c08:{k}', case):
        return False
    if len(rm.ref_compact(state)) != len(state):
        acc.n['nontrivial'] += 1
    for i, var in enumerate(lattice.overlap_variants(state, overlap_limit)):
        acc.n['states'] += 1
        acc.n['overlap_states'] += 1
        vcase = {'list': [list(p) for p in var]}
        if not check_c08_list(acc, a5, var, f'c08-overlap:{key_of(var)}', vcase):
            return False
        acc.n['nontrivial'] += 1
    return True


def _work(task):
    which, batch, perms_upto = task
    import a5
    acc = common.Acc()
    for state, trace in batch:
        if which == 'C09':
            check_c09(acc, a5, state, trace, perms_upto)
        else:
            check_c08(acc, a5, state, trace, 2)
    return acc


SPARSE_MENU = ([(0,), (1,), (6,), (11,)] + [(0, n) for n in range(5)] + [(6, n) for n in range(5)] +
               [(0, n, 0) for n in range(5)] + [(0, n, 3) for n in range(5)] + [(6, n, 0) for n in range(5)] +
               [(0, 0, 1), (0, 0, 2), (3, 2, 1, 0), (3, 2, 1, 1), (3, 2, 1, 2), (3, 2, 1, 3), (11, 4, 3), (11, 4, 2)])


def sparse_states(size):
    """every antichain of at most `size` cells over SPARSE_MENU: sparse, scattered inputs that no short edit sequence from a full
    cover reaches (e.g. the first children of four neighbouring segments)"""
    import itertools
    menu = sorted(SPARSE_MENU)
    for n in range(1, size + 1):
        for combo in itertools.combinations(menu, n):
            if rm.is_antichain(combo):
                yield tuple(sorted(combo))


def spine_states(tier):
    """maximal merge cascades: for a descent path P down to resolution R, the siblings of every ancestor of P below `top` together with
    P itself form an antichain that compacts to `top` in R - res(top) cascading passes (30 passes from resolution 29 to the world cell);
    with one sibling removed at level m the cascade has to stop exactly below m"""
    pats = [(0, 0, (0,)), (11, 4, (3,)), (6, 2, (1, 2)), (3, 1, (2, 0, 3, 1))]
    if tier != 'quick':
        pats += [(5, 3, (3, 0)), (9, 0, (1,)), (2, 4, (2,)), (7, 1, (0, 3, 3, 1, 2))]
    for f, n, pat in pats:
        full = (f, n) + tuple(pat[i % len(pat)] for i in range(28))          # a resolution-29 cell
        for top_len in (0, 1, 2, 6):                                         # cascade ends in the world cell, a face, a quintant, a res-5 cell
            for plen in range(top_len + 1, 31):
                P = full[:plen]
                levels = {}
                for L in range(top_len + 1, plen + 1):
                    levels[L] = [sib for sib in rm.children(P[:L - 1]) if sib != P[:L]]
                state = [P] + [x for L in levels for x in levels[L]]
                yield tuple(sorted(state)), (('spine', P),)
                ms = sorted(levels) if tier != 'quick' else sorted({min(levels), (min(levels) + max(levels)) // 2, max(levels)})
                for m in ms:
                    drop = levels[m][len(levels[m]) // 2]
                    yield tuple(sorted(x for x in state if x != drop)), (('spine', P), ('remove', drop))


def block_states(tier):
    """two-level sibling blocks: below a grandparent G every child P_i is independently absent / present as itself / present as all of its
    children / as its first child only / as all children but the last - every combination (5^4, 5^5 for a face); each one is an antichain
    that needs 0, 1 or 2 merging passes and in which complete and incomplete groups sit next to each other in every arrangement"""
    import itertools
    tops = [(3,), (0, 0), (6, 2, 1), (11, 4) + (3,) * 4, (6, 2) + (1,) * 25]
    if tier != 'quick':
        tops += [(), (0,), (11, 4), (3, 1, 2, 0), (9, 0) + (2, 1) * 6]
    for G in tops:
        kids = rm.children(G)
        if len(kids) > 5:
            kids = kids[:2] + kids[5:7] + kids[-1:]       # world cell: faces 0, 1, 5, 6, 11 stand for the twelve
        options = []
        for P in kids:
            ch = rm.children(P)
            options.append([(), (P,), tuple(ch), (ch[0],), tuple(ch[:-1])])
        for combo in itertools.product(*options):
            state = tuple(sorted(x for part in combo for x in part))
            if state:
                yield state, (('block', G),)


def explore(which, tier, acc):
    """BFS in this process, oracle evaluation in the pool; returns (states, bfs transitions)"""
    import multiprocessing
    perms_upto = 4 if tier == 'quick' else 5
    total_states = 0
    total_edges = 0
    ctx = multiprocessing.get_context('fork')
    bs = bases(tier, which)
    bs = common.rotate(bs, common.seed())
    depth_hist = {}
    with ctx.Pool(common.NPROC, initializer=common._worker_init) as pool:
        pending = []

        def flush(batch):
            pending.append(pool.apply_async(_work, ((which, batch, perms_upto),)))

        for base, max_res, k in bs:
            batch = []
            for depth, state, trace in lattice.bfs([base], k, lambda b: max_res):
                total_states += 1
                depth_hist[depth] = depth_hist.get(depth, 0) + 1
                batch.append((state, trace))
                if len(batch) >= 400:
                    flush(batch)
                    batch = []
                if total_states in (3, 500, 40000):
                    acc.sample({'base': [list(p) for p in base], 'edits': [[op, list(x)] for op, x in trace], 'cells_in_state': len(state)})
            if batch:
                flush(batch)
            total_edges += getattr(lattice.bfs, 'transitions', 0)
            acc.notes.append(f'base [{key_of(tuple(sorted(base)))}] explored to edit depth {k}, splits down to resolution {max_res}')
        # second family: all small antichains over a menu
        size = 4 if tier == 'quick' else 5
        batch = []
        nsp = 0
        for st in sparse_states(size):
            nsp += 1
            batch.append((st, (('sparse', ()),)))
            if len(batch) >= 500:
                flush(batch)
                batch = []
        if batch:
            flush(batch)
        total_states += nsp
        acc.n['sparse_antichains'] = nsp
        acc.notes.append(f'all {nsp} antichains of <= {size} cells over a {len(SPARSE_MENU)}-cell menu (faces 0/1/6/11, all segments of faces 0 and 6, their first/last children, a res-3 sibling group)')
        # third family: maximal cascades (up to 30 merging passes in one call)
        batch = []
        nspine = 0
        for st, tr in spine_states(tier):
            nspine += 1
            batch.append((st, tr))
            if len(batch) >= 60:
                flush(batch)
                batch = []
        if batch:
            flush(batch)
        total_states += nspine
        acc.n['cascade_spines'] = nspine
        acc.notes.append(f'{nspine} cascade spines: sibling staircases along {4 if tier == "quick" else 8} descent paths, every depth 1..30 passes, ending in the world cell / a face / a quintant / a res-5 cell, complete and with one sibling removed')
        # fourth family: two-level sibling blocks
        batch = []
        nblock = 0
        for st, tr in block_states(tier):
            nblock += 1
            batch.append((st, tr))
            if len(batch) >= 300:
                flush(batch)
                batch = []
        if batch:
            flush(batch)
        total_states += nblock
        acc.n['two_level_blocks'] = nblock
        acc.notes.append(f'{nblock} two-level sibling blocks: below {5 if tier == "quick" else 10} grandparents (a face, a quintant, resolutions 3, 6, 27; thorough also the world cell, resolutions 1, 2, 4, 14) every child is absent / itself / all its children / its first child / all but its last child, in every combination')
        for p in pending:
            acc.merge(p.get())
    acc.n['lattice_states'] = total_states
    acc.n['lattice_edit_transitions'] = total_edges
    for d, c in depth_hist.items():
        acc.strata[f'edit_depth_{d}'] = c
    return total_states, total_edges
