#!/venv/bin/python
"""(Re)writes seeded/<id>/meta.json from eval.json / notes.md and prints the detection matrix."""
import os, json, glob, re, sys
HERE = os.path.dirname(os.path.dirname(os.path.abspath(__file__)))
rows = []
for d in sorted(glob.glob(os.path.join(HERE, 'seeded', 'C*-m*'))):
    name = os.path.basename(d)
    prop = name.split('-')[0]
    ev = {}
    for f in sorted(glob.glob(os.path.join(d, 'eval*.json'))):
        try:
            e = json.load(open(f))
        except Exception:
            continue
        for k, v in e.items():
            if k == 'checks':
                ev.setdefault('checks', {}).update(v)
            elif k not in ('detected_by', 'machinery_errors', 'mutation'):
                ev[k] = v
    checks = ev.get('checks', {})
    detected = sorted(p for p, r in checks.items() if r.get('rc') == 1)
    notes = open(os.path.join(d, 'notes.md')).read() if os.path.exists(os.path.join(d, 'notes.md')) else ''
    needs = ''
    m = re.search(r'(?is)(trigger|condition|manifest)[^\n]*\n?(.{0,600})', notes)
    if m:
        needs = ' '.join((m.group(0)).split())[:500]
    meta = {
        'id': name,
        'property_broken': prop,
        'origin': (open(os.path.join(d, 'origin.txt')).read().strip() if os.path.exists(os.path.join(d, 'origin.txt')) else 'independent sub-agent given only the property text and a scratch worktree'),
        'what_it_needs_to_manifest': needs,
        'confirmed': {
            'patch_applies_to_repo_HEAD': ev.get('patch_applies'),
            'existing_test_suite_passes_with_patch': ev.get('suite_passes'),
            'suite_tail': ev.get('suite_tail'),
            'demo_fails_with_patch': ev.get('demo_fails_with_patch'),
            'demo_passes_without_patch': ev.get('demo_passes_on_repo'),
        },
        'what_was_run': 'tools/eval_seeded.py: scratch worktree of /repo HEAD + git apply patch.diff; pytest (full suite); demo.py on patched copy and on /repo; '
                        'run_check.py <check> --tier quick with A5_REPO=<patched copy> for the checks listed below',
        'checks_run': {p: {'exit': r.get('rc'), 'violations_reported': r.get('violations'), 'first': r.get('first', '')[:300]} for p, r in sorted(checks.items())},
        'detected_by': detected,
    }
    json.dump(meta, open(os.path.join(d, 'meta.json'), 'w'), indent=1)
    rows.append((name, ev.get('suite_passes'), ev.get('demo_fails_with_patch'), detected, sorted(p for p in checks if checks[p].get('rc') == 0)))
for r in rows:
    print('%-8s suite=%s demo_fails=%s detected_by=%s silent=%s' % r)
print(len(rows), 'seeded changes;', sum(1 for r in rows if r[3]), 'detected by at least one check;', sum(1 for r in rows if r[0].split('-')[0] in r[3]), 'detected by the check of their own property')
