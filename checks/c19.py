"""C19 - hex text form of an id round-trips (lane-exhaustive enumeration)."""
import re
from vf import common, refmodel as rm

PID = 'C19'
LEVEL = 'exploration'
PAT = re.compile(r'^(0|[1-9a-f][0-9a-f]*)$')
M64 = (1 << 64) - 1


def check_value(acc, a5, n, strings=None):
    acc.n['evaluations'] += 1
    case = {'n': n}
    try:
        s = a5.u64_to_hex(n)
        back = a5.hex_to_u64(s)
    except Exception as e:
        acc.violation(f'c19:raises:{n:#x}', f'raised {e!r}', case)
        return
    if not isinstance(s, str) or not PAT.match(s):
        acc.violation(f'c19:format:{n:#x}', f'u64_to_hex({n:#x}) = {s!r} is not plain lower-case hex', case)
        return
    if back != n or s != '%x' % n:
        acc.violation(f'c19:roundtrip:{n:#x}', f'u64_to_hex = {s!r}, hex_to_u64 of it = {back!r}', case)
        return
    try:
        up = a5.hex_to_u64(s.upper())
        pad = a5.hex_to_u64('000' + s)
        pad16 = a5.hex_to_u64(s.rjust(16, '0'))
        # upper case is accepted letter by letter: the two alternating-case spellings and an upper-case padded one
        mixed = [a5.hex_to_u64(''.join(ch.upper() if (i + o) % 2 else ch for i, ch in enumerate(s))) for o in (0, 1)]
        mixed.append(a5.hex_to_u64('0' + s.upper()))
    except Exception as e:
        acc.violation(f'c19:parse-raises:{n:#x}', f'upper-case / mixed-case / zero-padded spelling raised {e!r}', case)
        return
    if up != n or pad != n or pad16 != n or any(m != n for m in mixed):
        acc.violation(f'c19:parse:{n:#x}', f'upper-case / padded / mixed-case spellings parse to {up}, {pad}, {pad16}, {mixed}', case)
        return
    if strings is not None:
        strings.add(s)
    acc.n['nontrivial'] += 1 if n > 0xffffffff else 0


def work(task):
    import a5
    kind, arg = task
    acc = common.Acc()
    strings = set()
    vals = set()
    if kind == 'lane':
        lane, bg = arg
        for v in range(65536):
            n = (bg & ~(0xffff << (16 * lane)) & M64) | (v << (16 * lane))
            vals.add(n)
    elif kind == 'special':
        for b in range(64):
            vals.add(1 << b)
            vals.add(M64 ^ (1 << b))
            vals.add((1 << b) - 1)
            vals.add(((1 << b) + 1) & M64)
        vals.update({0, M64, 1 << 32, (1 << 32) - 1, (1 << 32) + 1, 1 << 63, (1 << 63) - 1})
        for nib in range(16):
            for v in range(16):
                vals.add(v << (4 * nib))
                vals.add(M64 ^ (v << (4 * nib)))
    else:
        r = arg
        for p in rm.descendants((), r):
            vals.add(rm.encode(p))
    for n in sorted(vals):
        check_value(acc, a5, n, strings)
    if len(strings) != len(vals) and not acc.vmap:
        acc.violation(f'c19:not-injective:{kind}:{arg}', f'{len(vals)} values gave {len(strings)} strings', {'n': 0})
    acc.strata[kind] += len(vals)
    acc.n['distinct_strings'] += len(strings)
    return acc


def work_orders(task):
    """every order of up to 3 calls among {u64_to_hex(n), hex_to_u64(lower), hex_to_u64(UPPER), hex_to_u64(zero-padded)} on a value never
    seen before in this process: the text form must not depend on which spelling was parsed first"""
    import a5
    import itertools
    acc = common.Acc()
    base, count = task
    ops = ('fmt', 'lower', 'upper', 'padded', 'bad_fmt', 'bad_parse')
    seqs = [s for n in (1, 2, 3) for s in itertools.permutations(ops, n)]
    i = 0
    for rep in range(count):
        for seq in seqs:
            # distinct value per sequence, with letters a-f in it and above 2^32
            n = (base + i * 0x10000000f0001) & M64 | 0xabcdef0000000000
            i += 1
            want = '%x' % n
            acc.n['evaluations'] += 1
            acc.strata['op_orders'] += 1
            bad = None
            for op in seq:
                try:
                    if op == 'fmt':
                        got = a5.u64_to_hex(n)
                        ok = got == want
                    elif op == 'lower':
                        got = a5.hex_to_u64(want)
                        ok = got == n
                    elif op == 'upper':
                        got = a5.hex_to_u64(want.upper())
                        ok = got == n
                    elif op == 'padded':
                        got = a5.hex_to_u64('00' + want)
                        ok = got == n
                    elif op == 'bad_fmt':
                        # outside the domain: may raise or not, but must leave nothing behind for the next call
                        try:
                            a5.u64_to_hex((1 << 64) + (n & 0xff))
                        except Exception:
                            pass
                        try:
                            a5.u64_to_hex(-1 - (n & 0xf))
                        except Exception:
                            pass
                        got, ok = None, True
                    else:
                        try:
                            a5.hex_to_u64('xyz' + want[:3])
                        except Exception:
                            pass
                        try:
                            a5.hex_to_u64('')
                        except Exception:
                            pass
                        got, ok = None, True
                except Exception as e:
                    got, ok = repr(e), False
                if not ok:
                    bad = (op, got)
                    break
            if bad:
                acc.violation(f'c19:order:{"/".join(seq)}', f'call order {seq} on {n:#x}: {bad[0]} gave {bad[1]!r} (expected {want!r} / {n})', {'n': n, 'order': list(seq)})
            else:
                acc.n['nontrivial'] += 1
    return acc


def run(tier, t0):
    acc = common.Acc()
    tasks = [('lane', (lane, bg)) for lane in range(4) for bg in ((0, M64, 0x5555555555555555, 0x0123456789abcdef) if tier == 'quick' else (0, M64, 0x5555555555555555, 0xaaaaaaaaaaaaaaaa, 0x0123456789abcdef, 0xfedcba9876543210, 0x8000000000000001, 0x00ff00ff00ff00ff))]
    tasks.append(('special', None))
    R = 6 if tier == 'quick' else 8
    tasks += [('ids', r) for r in range(-1, R + 1)]
    # deep ids: marker at every position
    tasks = common.rotate(tasks, common.seed())
    common.pmap_merge(work, tasks, acc)
    common.pmap_merge(work_orders, [(0x1234567 * (j + 1) + common.seed(), 4) for j in range(8)], acc)
    acc.sample({'n': hex(0xffff000000000001), 'string': 'ffff000000000001'})
    acc.sample({'n': hex(rm.encode((11, 4) + (3,) * 28)), 'kind': 'resolution 29 cell id'})
    rule = (f'all 65536 values of each 16-bit lane over 4 backgrounds (0, all-ones, 0x5555.., 0x0123..), single bits, complements, 2^k-1, 2^k+1, every nibble value at every '
            f'position, and every valid cell id of resolutions -1..{R}; non-trivial = values above 2^32 (where all real ids live) that round-tripped and re-parsed from '
            'upper-case, alternating-case and zero-padded spellings; plus every order of up to 3 format/parse calls on fresh values')
    return common.finish(PID, LEVEL, tier, acc, t0, rule, [
        '2^64 values cannot be enumerated; the conversion is digit-wise, so lanes x backgrounds plus all single-digit perturbations is the bounded space',
    ], exhaustive=False)


def replay(case):
    import a5
    acc = common.Acc()
    if 'order' in case:
        acc = work_orders((int(case['n']), 1))
        return [(k, w) for k, w, _ in acc.violations]
    check_value(acc, a5, int(case['n']))
    return [(k, w) for k, w, _ in acc.violations]
