"""C10 - uncompact expands each cell to exactly its descendants at the target level (E3 list enumerator)."""
import itertools
from vf import common, refmodel as rm, lattice, compact_check as cc

PID = 'C10'
LEVEL = 'model_checking'

C27 = (6, 2) + (1,) * 26
MENU = [
    (), (0,), (11,), (0, 0), (3, 2), (11, 4), (0, 0, 0), (5, 1, 3), (11, 4, 3), (2, 2, 1, 2), (7, 3, 0, 3),
    C27, C27 + (2,), C27 + (2, 3), C27 + (2, 0), (11, 4) + (3,) * 27,
]


def check_case(acc, a5, paths, t, limit, edits=False):
    """one (list, target) case"""
    rs = [rm.res(p) for p in paths]
    too_fine = any(r > t for r in rs)
    if not too_fine:
        size = sum(rm.num_desc(r, t) for r in rs)
        if size > limit:
            acc.n['skipped_too_large'] += 1
            return
    acc.n['states'] += 1
    ids = [cc.enc(p) for p in paths]
    arg = list(ids)
    k = f'{cc.key_of(paths)}@t={t}'
    case = {'list': [list(p) for p in paths], 't': t}
    try:
        out = a5.uncompact(arg, t)
    except ValueError as e:
        acc.n['transitions'] += 1
        if too_fine:
            acc.n['validated'] += 1
            acc.n['raised_as_required'] += 1
        else:
            acc.violation(f'c10:{k}:raises', f'uncompact raised {e!r} although no cell is finer than {t}', case)
        if arg != ids:
            acc.violation(f'c10:{k}:input-mutated', 'uncompact modified its argument', case)
        return
    except Exception as e:
        acc.violation(f'c10:{k}:raises', f'uncompact raised {e!r}', case)
        return
    if too_fine:
        acc.violation(f'c10:{k}:no-raise', f'a cell finer than {t} is in the list but uncompact returned {len(out)} cells', case)
        return
    if arg != ids:
        acc.violation(f'c10:{k}:input-mutated', 'uncompact modified its argument', case)
        return
    if not isinstance(out, list):
        acc.violation(f'c10:{k}:bad-type', f'returned {type(out).__name__}', case)
        return
    if out is arg:
        acc.violation(f'c10:{k}:aliases-input', 'uncompact returned its argument object', case)
        return
    if len(out) != size:
        acc.violation(f'c10:{k}:length', f'{len(out)} cells returned, expected {size}', case)
        return
    off = 0
    for p, c, r in zip(paths, ids, rs):
        n = rm.num_desc(r, t)
        block = out[off:off + n]
        off += n
        acc.n['transitions'] += 1
        want = {cc.enc(q) for q in rm.descendants(p, t)}
        if len(set(block)) != n or set(block) != want:
            acc.violation(f'c10:{k}:block', f'block for cell {c:#x} is not exactly its {n} descendants at resolution {t}', case)
            return
        try:
            for x in block[:4] + block[-2:]:
                if a5.get_resolution(x) != t or a5.cell_to_parent(x, r) != c:
                    acc.violation(f'c10:{k}:maps-back', f'{x:#x} does not map back to {c:#x}', case)
                    return
            gn = a5.core.cell_info.get_num_children(r, t)
        except Exception as e:
            acc.violation(f'c10:{k}:api-raises', f'{e!r}', case)
            return
        if gn != n:
            acc.violation(f'c10:{k}:num-children', f'get_num_children({r}, {t}) = {gn}, block has {n}', case)
            return
        acc.n['validated'] += 1
    if size > len(paths):
        acc.n['nontrivial'] += 1
    acc.outcome(hash(tuple(out[:64])) ^ len(out))
    if edits and size <= 4 ** 4:
        # a caller owns what it was handed: lists returned earlier by uncompact / cell_to_children for the same cells are edited in
        # place, then the same expansion is requested again and must come out unchanged
        want_out = list(out)
        try:
            del out[::2]
            out.append(0)
            for c, r in zip(ids, rs):
                if r <= t:
                    ch = a5.cell_to_children(c, t)
                    del ch[::2]
                    ch.extend([0, c])
            again = a5.uncompact(list(ids), t)
        except Exception as e:
            acc.violation(f'c10:{k}:after-edits-raises', f'after the caller edited lists returned by earlier uncompact / cell_to_children calls, the same uncompact raised {e!r}', dict(case, edits=True))
            return
        acc.n['transitions'] += 1
        acc.n['repeated_after_caller_edits'] += 1
        if again != want_out:
            acc.violation(f'c10:{k}:after-edits', 'after the caller edited lists returned by earlier uncompact / cell_to_children calls, the same uncompact returns different cells', dict(case, edits=True))


def work_lists(task):
    import a5
    lists, limit = task
    acc = common.Acc()
    for paths in lists:
        for t in range(0, 30):
            check_case(acc, a5, paths, t, limit, edits=len(paths) <= 2)
    return acc


def work_groups(task):
    import a5
    lists, limit, targets = task
    acc = common.Acc()
    for paths in lists:
        for t in sorted(set(targets)):
            check_case(acc, a5, paths, t, limit)
    return acc


def work_states(task):
    import a5
    batch, limit = task
    acc = common.Acc()
    for state in batch:
        rmax = max((rm.res(p) for p in state), default=0)
        for t in {max(rmax, 0), min(max(rmax, 0) + 1, 29)}:
            check_case(acc, a5, list(state), t, limit)
            check_case(acc, a5, list(reversed(state)), t, limit)
    return acc


def run(tier, t0):
    acc = common.Acc()
    limit = 4 ** 6
    L = 3
    lists = []
    for n in range(1, L + 1):
        for combo in itertools.product(MENU, repeat=n):
            lists.append(list(combo))
    lists.append([])
    tasks = [(work_lists, (ch, limit)) for ch in common.chunks(lists, 60)]
    # every list of length 4 (thorough: 5) over one complete sibling group plus two strangers (a coarser and a finer cell elsewhere):
    # complete groups, groups with swapped / repeated / replaced members, in every order
    group_tasks = []
    for parent in ((4, 1, 2), (9, 0, 3, 1, 2), (6, 2) + (1,) * 26, (2, 3)):
        sib = rm.children(parent)[:4]
        strangers = [(11, 4, 0), (0, 0) + (2,) * (len(parent) - 1)]
        glists = [list(c) for c in itertools.product(sib + strangers, repeat=4)]
        if tier != 'quick':
            glists += [list(c) for c in itertools.product(sib + strangers[:1], repeat=5)]
        tmax = min(len(parent) + 1, 29)          # resolution of the siblings + 1
        group_tasks += [(work_groups, (ch, limit, [tmax - 1, tmax, min(tmax + 1, 29)])) for ch in common.chunks(glists, 200)]
    acc.n['sibling_group_lists'] = sum(len(t[1][0]) for t in group_tasks)
    tasks += group_tasks
    # every state of a (smaller) antichain lattice as an input list
    k = 4 if tier == 'quick' else 5
    states = [st for _, st, _ in lattice.bfs([[()]], k, lambda b: 3)]
    for base in ([C27], [(11, 4) + (3,) * 25], [(0, 0)], [(5,)]):
        states += [st for _, st, _ in lattice.bfs([base], 3 if tier == 'quick' else 4, lambda b: min(rm.res(b[0]) + 2, 29))]
    acc.n['lattice_states'] = len(states)
    tasks += [(work_states, (ch, limit)) for ch in common.chunks(states, 300)]
    tasks = common.rotate(tasks, common.seed())
    for part in common.pmap(_dispatch, tasks):
        acc.merge(part)
    acc.sample({'list(paths)': [list(MENU[3]), list(MENU[1]), list(MENU[3])], 'target': 4, 'expected_blocks': [64, 320, 64]})
    acc.sample({'list(paths)': [list(MENU[12])], 'target': 27, 'expected': 'ValueError'})
    rule = (f'all lists of length 0..{L} (order and repetition matter) over a 16-cell menu (world, res 0-3, a res 27-29 chain) x every target 0..29 '
            f'whose output has <= {limit} cells or that must raise; plus every list of length 4 (thorough also 5) over a complete sibling group and two strangers, for groups at resolutions 1, 3, 5 and 28 x targets at, one and two levels below; plus every antichain of the E3 lattice (edit depth {k}) in two orders x targets Rmax, Rmax+1; '
            'for lists of length <= 2 the lists returned by uncompact and by cell_to_children for the same cells are then edited in place and the expansion is repeated; non-trivial = cases that really expand')
    return common.finish(PID, LEVEL, tier, acc, t0, rule, [
        'reference descendants = tuple-path extension (vf/refmodel.py)',
        'within a block only the set of cells is compared (the statement does not fix an order inside a block); block order and multiplicity are compared exactly',
        f'cases whose output would exceed {limit} cells are skipped (counted in counters.skipped_too_large)',
    ], exhaustive=True)


def _dispatch(t):
    return t[0](t[1])


def replay(case):
    import a5
    acc = common.Acc()
    check_case(acc, a5, [tuple(p) for p in case['list']], case['t'], 4 ** 8, edits=bool(case.get('edits')))
    return [(k, w) for k, w, _ in acc.violations]
