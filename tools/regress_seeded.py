#!/venv/bin/python
"""Regression of the checks against every kept seeded change: re-runs, with the CURRENT checks, one check that is recorded as
detecting the change (the property's own check when it is among them) and reports changes that are no longer detected.

usage: regress_seeded.py [--only C16] [--jobs 2]        results: seeded/<id>/regress.json, summary on stdout
"""
import os, sys, json, glob, subprocess, argparse, concurrent.futures as cf
HERE = os.path.dirname(os.path.dirname(os.path.abspath(__file__)))


def one(d, nproc):
    meta = json.load(open(os.path.join(d, 'meta.json')))
    det = meta.get('detected_by') or []
    if not det:
        return os.path.basename(d), None, 'never detected'
    prop = meta['property_broken']
    pid = prop if prop in det else det[0]
    p = subprocess.run(['/venv/bin/python', os.path.join(HERE, 'tools', 'eval_seeded.py'), d, '--checks', pid, '--no-suite', '--nproc', str(nproc)], capture_output=True, text=True)
    try:
        out = json.loads(p.stdout)
    except Exception:
        return os.path.basename(d), pid, 'error: ' + p.stderr[-300:]
    json.dump(out, open(os.path.join(d, 'regress.json'), 'w'), indent=1)
    return os.path.basename(d), pid, 'detected' if pid in out.get('detected_by', []) else 'NOT DETECTED'


def main():
    ap = argparse.ArgumentParser()
    ap.add_argument('--only', default='')
    ap.add_argument('--jobs', type=int, default=2)
    a = ap.parse_args()
    dirs = sorted(glob.glob(os.path.join(HERE, 'seeded', 'C*-m*')))
    if a.only:
        dirs = [d for d in dirs if os.path.basename(d).startswith(a.only)]
    nproc = max(2, 16 // a.jobs)
    bad = 0
    with cf.ThreadPoolExecutor(a.jobs) as ex:
        for name, pid, res in ex.map(lambda d: one(d, nproc), dirs):
            print(name, pid, res, flush=True)
            if res not in ('detected', 'never detected'):
                bad += 1
    print('regressions:', bad)


if __name__ == '__main__':
    main()
