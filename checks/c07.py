"""C07 - the id hierarchy is spatially coherent (E1: all descent paths from every explored cell; E2 for points)."""
import math
from vf import common, refmodel as rm, seeds, sphere as sp, geo, points

PID = 'C07'
LEVEL = 'model_checking'

_CENTRE = {}


def centre(a5, c):
    v = _CENTRE.get(c)
    if v is None:
        v = sp.vec(a5.cell_to_lonlat(c))
        if len(_CENTRE) > 200000:
            _CENTRE.clear()
        _CENTRE[c] = v
    return v


def check_subtree(acc, a5, path, levels):
    """every descendant of `path` up to `levels` levels down stays within 1.5 widths of the ancestor's centre"""
    r = rm.res(path)
    c = rm.encode(path)
    case = {'kind': 'subtree', 'path': list(path), 'levels': levels}
    label = '/'.join(map(str, path))
    acc.n['states'] += 1
    try:
        m = centre(a5, c)
        w = sp.width(r)
        frontier = [c]
        for lv in range(1, levels + 1):
            if r + lv > 29:
                break
            kids = a5.cell_to_children(c, r + lv)
            for d in kids:
                acc.n['transitions'] += 1
                dist = sp.angle(centre(a5, d), m) / w
                acc.maximum(f'descendant_drift_widths_lv{lv}', round(dist, 4), [hex(c), hex(d)])
                if not (dist <= 1.5):
                    acc.violation(f'c07:{label}:desc:{d:#x}', f'descendant {d:#x} (res {r + lv}) is {dist:.3f} widths from the centre of its ancestor {c:#x} (res {r}); limit 1.5', case)
                    return
                acc.n['validated'] += 1
    except Exception as e:
        acc.violation(f'c07:{label}:raises', f'raised {type(e).__name__}: {e}', case)
        return
    acc.n['nontrivial'] += 1


EXTREME = [(0,), (1,), (2,), (3,), (0, 1), (1, 0), (1, 2), (2, 1), (2, 3), (3, 2), (3, 0), (0, 3), (0, 2), (1, 3), (0, 0, 3), (3, 3, 0)]


def check_paths(acc, a5, path):
    """16 extreme descent paths (constant digit, alternating pairs, ...) down to min(r+12, 29)"""
    r = rm.res(path)
    if r < 1:
        return
    c = rm.encode(path)
    case = {'kind': 'paths', 'path': list(path)}
    label = '/'.join(map(str, path))
    try:
        m = centre(a5, c)
        w = sp.width(r)
        for pat in EXTREME:
            q = path
            for i in range(min(12, 29 - r)):
                q = q + (pat[i % len(pat)],)
                d = rm.encode(q)
                acc.n['transitions'] += 1
                dist = sp.angle(centre(a5, d), m) / w
                acc.maximum('descent_path_drift_widths', round(dist, 4), [hex(c), hex(d)])
                if not (dist <= 1.5):
                    acc.violation(f'c07:{label}:path:{"".join(map(str, pat))}:{i + 1}', f'descendant {d:#x} {i + 1} levels below {c:#x} is {dist:.3f} widths from its centre; limit 1.5', case)
                    return
                acc.n['validated'] += 1
    except Exception as e:
        acc.violation(f'c07:{label}:paths-raise', f'raised {type(e).__name__}: {e}', case)


def check_faces(acc, a5):
    """the twelve faces and their five segments nest exactly: every segment triangle has the face centre and two consecutive face corners as corners"""
    for f in range(12):
        case = {'kind': 'faces', 'f': f}
        try:
            fc = rm.encode((f,))
            ring0 = geo.ring(fc, 1)
            m = sp.vec(a5.cell_to_lonlat(fc))
            used = set()
            for n in range(5):
                acc.n['states'] += 1
                tri = geo.ring(rm.encode((f, n)), 1)
                if len(tri) != 3:
                    acc.violation(f'c07:face{f}:seg{n}:shape', f'segment {n} of face {f} has {len(tri)} corners', case)
                    continue
                hits = []
                centre_hits = 0
                for v in tri:
                    if sp.small_angle(v, m) < 1e-9:
                        centre_hits += 1
                        continue
                    for i, cnr in enumerate(ring0):
                        if sp.small_angle(v, cnr) < 1e-9:
                            hits.append(i)
                acc.n['transitions'] += 3
                ok = centre_hits == 1 and len(hits) == 2 and (abs(hits[0] - hits[1]) in (1, 4))
                if not ok:
                    acc.violation(f'c07:face{f}:seg{n}:nest', f'segment {n} of face {f} is not spanned by the face centre and two consecutive face corners', case)
                    continue
                used.add(frozenset(hits))
                acc.n['validated'] += 3
            if len(used) != 5:
                acc.violation(f'c07:face{f}:cover', f'the five segments of face {f} use {len(used)} distinct face edges', case)
        except Exception as e:
            acc.violation(f'c07:face{f}:raises', f'raised {type(e).__name__}: {e}', case)


def check_point(acc, a5, p, r):
    """distance(p, centre(parent(cell(p, r), r'))) <= 2.5 widths(r') for every r' < r"""
    case = {'kind': 'point', 'point': [p[0], p[1]], 'r': r}
    k = f'c07:point:{p[0]!r},{p[1]!r}@{r}'
    acc.n['states'] += 1
    try:
        c = a5.lonlat_to_cell(points.as_argument(p, True), r)      # one list object updated in place between calls
        pv = sp.vec((sp.wrap_lon(p[0]), p[1]))
        for rr in range(0, r):
            par = a5.cell_to_parent(c, rr)
            acc.n['transitions'] += 1
            dist = sp.angle(pv, centre(a5, par)) / sp.width(rr)
            acc.maximum('point_to_ancestor_centre_widths', round(dist, 4), [p[0], p[1], r, rr])
            if not (dist <= 2.5):
                acc.violation(k + f':ancestor{rr}', f'the resolution-{rr} ancestor {par:#x} of the cell of {p!r} (res {r}) has its centre {dist:.3f} widths away; limit 2.5', case)
                return
            acc.n['validated'] += 1
    except Exception as e:
        acc.violation(k + ':raises', f'raised {type(e).__name__}: {e}', case)


def work_sub(task):
    a5 = geo.api()
    acc = common.Acc()
    paths, levels, extreme = task
    for p in paths:
        check_subtree(acc, a5, p, levels)
        if extreme:
            check_paths(acc, a5, p)
        acc.strata[f'subtree_r{rm.res(p):02d}'] += 1
    return acc


def work_points(task):
    a5 = geo.api()
    acc = common.Acc()
    try:
        pts = points.expand(task)
    except Exception as e:
        acc.violation(f'c07:alphabet:{task[0]}', f'building the point alphabet raised {type(e).__name__}: {e}', {'kind': 'alphabet'})
        return acc
    for i, (stratum, p, r, origin) in enumerate(pts):
        if r < 1:
            continue
        if r >= 20 or i % 3 == 0 or stratum == 'periodic':      # 'periodic': longitudes written +-360 / +-720 degrees away
            check_point(acc, a5, p, r)
            acc.strata['points'] += 1
    return acc


def run(tier, t0):
    acc = common.Acc()
    check_faces(acc, geo.api())
    tasks = []
    R = 3 if tier == 'quick' else 5
    for r in range(0, R + 1):
        for ch in common.chunks(rm.descendants((), r), 60 if r < 3 else 30):
            tasks.append((work_sub, (ch, 4, r >= 1)))
    if tier == 'quick':
        for ch in common.chunks(rm.descendants((), 4), 120):
            tasks.append((work_sub, (ch, 3, False)))
    deep = []
    level = 'basic'
    for r in range(R + 1 + (1 if tier == 'quick' else 0), 29):
        for f in range(12):
            for n in range(5):
                if (f + n + r + common.seed()) % (4 if tier == 'quick' else 2):
                    continue
                for d in seeds.g1_patterns(r - 1, level):
                    deep.append((f, n) + d)
    for ch in common.chunks(deep, 25):
        tasks.append((work_sub, (ch, 4, True)))
    for t in points.tasks(tier, common.seed()):
        if t[0] in ('site', 'poles') or (t[0] == 'cells' and rm.res(t[1][0]) >= 3 and tier == 'thorough'):
            tasks.append((work_points, t))
    tasks = common.rotate(tasks, common.seed())
    for part in common.pmap(_dispatch, tasks, chunksize=2):
        acc.merge(part)
    acc.sample({'ancestor': hex(rm.encode((4, 2, 1))), 'explored': 'all 4+16+64+256 descendants 1..4 levels down and 16 extreme digit paths 12 levels down'})
    acc.sample({'point': [0.0, 90.0], 'r': 29, 'explored': 'all 29 ancestors of its cell'})
    rule = (f'every cell of resolutions 0..{R} with all descendants 1..4 levels down (resolution {R + 1} with 3 levels in quick), 16 extreme descent paths of 12 levels from each; '
            'G1[basic] digit-pattern cells at resolutions up to 28 likewise; all ancestors of the cells of the special-site point alphabet; exact nesting of the 12 faces and 60 segments')
    return common.finish(PID, LEVEL, tier, acc, t0, rule, [
        'centres are cell_to_lonlat values converted with the closed-form authalic latitude; width(r) = sqrt(4*pi/get_num_cells(r))',
        'limits 1.5 and 2.5 widths are the statement\'s; measured extremes are reported under coverage.maxima',
        'descents deeper than 4 levels are covered on the 16 extreme digit paths only',
    ], exhaustive=True)


def _dispatch(t):
    return t[0](t[1])


def replay(case):
    acc = common.Acc()
    a5 = geo.api()
    k = case.get('kind')
    if k == 'subtree':
        check_subtree(acc, a5, tuple(case['path']), case['levels'])
    elif k == 'paths':
        check_paths(acc, a5, tuple(case['path']))
    elif k == 'point':
        check_point(acc, a5, tuple(case['point']), case['r'])
    elif k == 'faces':
        check_faces(acc, a5)
    else:
        return [('c07:alphabet', 're-run the check')]
    return [(kk, w) for kk, w, _ in acc.violations]
