"""E5 - call-history explorer.

The calling process imports a5 and never calls into it (pristine library state).  A history is a list of events;
every transition (state after history h) --event e--> (state after h+[e]) is executed in a forked process, so the real
interpreter state is the model state.  States are identified by a canonical hash of everything reachable from the
globals of the loaded a5 modules (generic walk: a cache added tomorrow is part of the hash without being named here).
BFS with state-hash deduplication: a history whose resulting state was seen before is not extended.
"""
import os
import sys
import copy
import types
import pickle
import hashlib
import select

from .sched import canon

_SKIP_TYPES = (types.FunctionType, types.BuiltinFunctionType, types.ModuleType, types.MethodType, type,
               types.MethodDescriptorType, types.WrapperDescriptorType, types.GetSetDescriptorType, property,
               staticmethod, classmethod)


def _walk(o, stack, out):
    if isinstance(o, float):
        out.append('f' + o.hex())
        return
    if o is None or isinstance(o, (bool, int, str, bytes)):
        out.append(repr(o))
        return
    if hasattr(o, 'cache_info') and hasattr(o, '__wrapped__'):
        try:
            out.append('<lru %d>' % o.cache_info().currsize)     # memoised functions are library state too (size only: keys are not reachable)
        except Exception:
            pass
        return
    if isinstance(o, _SKIP_TYPES):
        return
    mod = getattr(type(o), '__module__', '')
    if mod in ('typing', 'abc', 'functools', 'dataclasses', '_thread', 're'):
        return
    oid = id(o)
    if oid in stack:
        out.append('<cycle>')
        return
    stack.add(oid)
    try:
        if isinstance(o, (list, tuple)):
            out.append('[' if isinstance(o, list) else '(')
            for x in o:
                _walk(x, stack, out)
                out.append(',')
            out.append(']')
        elif isinstance(o, dict):
            items = []
            for k, v in o.items():
                ko, vo = [], []
                _walk(k, stack, ko)
                _walk(v, stack, vo)
                items.append((''.join(ko), ''.join(vo)))
            items.sort()
            out.append('{')
            for ks, vs in items:
                out.append(ks + ':' + vs + ';')
            out.append('}')
        elif isinstance(o, (set, frozenset)):
            items = []
            for x in o:
                xo = []
                _walk(x, stack, xo)
                items.append(''.join(xo))
            items.sort()
            out.append('set{' + ';'.join(items) + '}')
        elif hasattr(o, '__dict__'):
            out.append('<' + type(o).__name__)
            _walk(vars(o), stack, out)
            out.append('>')
        else:
            out.append('<' + type(o).__name__ + '>')
    finally:
        stack.discard(oid)


def lib_state(pkg='a5'):
    """canonical text of the library's reachable mutable state"""
    out = []
    for name in sorted(n for n in sys.modules if n == pkg or n.startswith(pkg + '.')):
        m = sys.modules[name]
        if m is None:
            continue
        out.append('#' + name)
        g = vars(m)
        for k in sorted(g):
            if k.startswith('__'):
                continue
            out.append('$' + k + '=')
            _walk(g[k], set(), out)
    return ''.join(out)


def state_hash(pkg='a5'):
    return hashlib.sha1(lib_state(pkg).encode()).hexdigest()[:20]


# ---------------------------------------------------------------------------------------------------------------
# events
# ---------------------------------------------------------------------------------------------------------------

def _resolve(fname):
    import a5
    obj = a5
    for part in fname.split('.'):
        obj = getattr(obj, part)
    return obj


def _mutate(v):
    """damage a returned value in place as a careless caller might"""
    if isinstance(v, list):
        if v:
            if isinstance(v[0], list):
                _mutate(v[0])
            v[0] = 'garbage'
            v.reverse()
        v.append(12345)
    elif isinstance(v, dict):
        v.clear()
        v['x'] = 1


_LIVE = []      # (event name, live returned object, canonical snapshot) of every un-mutated result handed out in this process


def check_live():
    """values returned earlier must still be what they were (a later call must not write into a list it handed out before)"""
    for name, obj, snap in _LIVE:
        if canon(obj) != snap:
            return f'the value returned earlier by {name} was changed in place by a later call'
    return None


class EventTimeout(BaseException):
    pass


def _on_alarm(signum, frame):
    raise EventTimeout('the call did not return within %d s (a pristine call takes milliseconds)' % EVENT_SECONDS)


EVENT_SECONDS = 30
PREFIX_PROBLEM_CAP = 8


def guard_resources():
    """a library whose results grow with the call history (a shared shape split again by every call, say) must end as a reported
    difference, not as a machine without memory: 8 GB address space per explorer process, 30 s per event"""
    import resource
    import signal
    try:
        soft, hard = resource.getrlimit(resource.RLIMIT_AS)
        cap = 8 << 30
        if hard == resource.RLIM_INFINITY or hard > cap:
            resource.setrlimit(resource.RLIMIT_AS, (cap, hard))
    except Exception:
        pass
    try:
        signal.signal(signal.SIGALRM, _on_alarm)
    except Exception:
        pass


def run_event(ev):
    """ev = (name, function path, args, mutate?) -> (canonical result, problem or None)"""
    import signal
    try:
        signal.alarm(EVENT_SECONDS)
    except Exception:
        pass
    try:
        res, prob = _run_event(ev)
    except EventTimeout as e:          # raised outside the guarded call (while canonicalising a huge result, say)
        res, prob = ('exc', f'EventTimeout: {e}'), None
    except MemoryError as e:
        res, prob = ('exc', f'MemoryError: {e}'), None
    finally:
        try:
            signal.alarm(0)
        except Exception:
            pass
    if prob is None:
        prob = check_live()
    return res, prob


def _run_event(ev):
    name, fname, args, mutate = ev
    fn = _resolve(fname)
    mine = copy.deepcopy(args)
    before = canon(mine)
    try:
        res = fn(*mine)
    except BaseException as e:  # noqa
        return ('exc', f'{type(e).__name__}: {e}'), None
    cres = canon(res)
    if canon(mine) != before:
        return ('ok', cres), 'arguments were modified by the call'
    if isinstance(res, (list, dict)) and any(res is a for a in mine):
        return ('ok', cres), 'the call returned the very object it was given as an argument (the caller cannot modify one without the other)'
    if not mutate and isinstance(res, (list, dict)):
        _LIVE.append((name, res, cres))
    if mutate:
        _mutate(res)
        if canon(mine) != before:
            return ('ok', cres), 'modifying the returned value changed the argument: the result shares structure with the argument'
        mine2 = copy.deepcopy(args)
        try:
            res2 = fn(*mine2)
        except BaseException as e:  # noqa
            return ('ok', cres), f'second identical call raised {type(e).__name__}: {e} after the first result was mutated'
        if canon(res2) != cres:
            return ('ok', cres), 'mutating the returned value changed the result of a later identical call'
    return ('ok', cres), None


def expand(task):
    """runs in a fresh fork of the pristine process: replay `history`, then fork once per event of `menu`.
    returns (state hash after history, [(event index, result, problem, state hash after event)], replay problems)"""
    history, menu, expected = task[:3]
    want_hash = task[3] if len(task) > 3 else None      # names of events whose successor state must be identified (None = all)
    problems = []
    guard_resources()
    for ev in history:
        res, prob = run_event(ev)
        if prob:
            problems.append((ev[0], prob))
        if expected is not None and ev[0] in expected and res != expected[ev[0]]:
            problems.append((ev[0], 'result differs from the pristine single call (during prefix replay)'))
        if len(problems) >= PREFIX_PROBLEM_CAP:
            # the library is deterministic: once this many replayed events have gone wrong nothing new is learnt by going on, and a
            # history-dependent blow-up would only get worse
            return state_hash(), [], problems
    h0 = state_hash()
    import gc
    gc.collect()
    gc.freeze()
    out = []
    pend = []

    def reap():
        pid, r, i = pend.pop(0)
        buf = []
        while True:
            ch = os.read(r, 1 << 16)
            if not ch:
                break
            buf.append(ch)
        os.close(r)
        os.waitpid(pid, 0)
        try:
            res, prob, h = pickle.loads(b''.join(buf))
        except Exception:
            res, prob, h = ('exc', 'process died'), 'interpreter died while running the event', None
        out.append((i, res, prob, h))

    for i, ev in enumerate(menu):
        r, w = os.pipe()
        pid = os.fork()
        if pid == 0:
            code = 0
            try:
                os.close(r)
                res, prob = run_event(ev)
                data = pickle.dumps((res, prob, state_hash() if (want_hash is None or ev[0] in want_hash) else None))
                view = memoryview(data)
                while view:
                    n = os.write(w, view[:1 << 16])
                    view = view[n:]
            except BaseException:
                code = 1
            finally:
                os._exit(code)
        os.close(w)
        pend.append((pid, r, i))
        while len(pend) >= 3:
            reap()
    while pend:
        reap()
    return h0, out, problems
