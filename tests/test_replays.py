"""Plain unit test that replays every recorded violation file without any explorer:

    /venv/bin/python -m pytest -q /verif/tests/test_replays.py            (all files under /verif/replays)
    REPLAY=/verif/replays/C09-xxxx.json /venv/bin/python -m pytest -q /verif/tests/test_replays.py

A replay file holds the minimal failing case (input / operation list / schedule point / history) written by a check.  The test
passes when the recorded case no longer violates its property on the current /repo tree and fails (showing the violation) while it does.
"""
import os
import sys
import glob
import json
import importlib

import pytest

HERE = os.path.dirname(os.path.dirname(os.path.abspath(__file__)))
sys.path.insert(0, HERE)
FILES = [os.environ['REPLAY']] if os.environ.get('REPLAY') else sorted(glob.glob(os.path.join(HERE, 'replays', '*.json')))


@pytest.mark.parametrize('path', FILES or [None])
def test_replay(path):
    if path is None:
        pytest.skip('no replay files recorded')
    from vf import common
    common.import_a5()
    rec = json.load(open(path))
    mod = importlib.import_module('checks.' + rec['property'].lower())
    out = mod.replay(rec['case'])
    assert not out, f"{rec['property']} still violated by the recorded case: {out[0]}"
