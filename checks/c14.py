"""C14 - the face projection preserves area for arbitrary regions, not only cells (polygon catalogue on all 12 faces)."""
import math
from vf import common, sphere as sp, faceplane as fp

PID = 'C14'
LEVEL = 'exploration'
FACE_WIDTH = 2 * fp.D_EDGE
SCALE = (4 * math.pi / 12) / fp.PENTAGON_AREA


def _lib():
    from a5.projections.dodecahedron import DodecahedronProjection
    return DodecahedronProjection


def cart(s):
    th, ph = s
    return (math.sin(ph) * math.cos(th), math.sin(ph) * math.sin(th), math.cos(ph))


def shape(kind, size, rot):
    """unit shapes scaled to `size` (circumradius), rotated by rot"""
    if kind == 'tri':
        angs = [0, 2 * math.pi / 3, 4 * math.pi / 3]
        rad = [1, 1, 1]
    elif kind == 'quad':
        angs = [math.pi / 4 + i * math.pi / 2 for i in range(4)]
        rad = [1, 1, 1, 1]
    else:  # thin triangle
        angs = [0, math.pi - 0.15, math.pi + 0.15]
        rad = [1, 1, 1]
    return [(size * r * math.cos(a + rot), size * r * math.sin(a + rot)) for a, r in zip(angs, rad)]


def planar_area(poly):
    a = 0.0
    n = len(poly)
    ox, oy = poly[0]
    for i in range(n):
        x1, y1 = poly[i][0] - ox, poly[i][1] - oy
        x2, y2 = poly[(i + 1) % n][0] - ox, poly[(i + 1) % n][1] - oy
        a += x1 * y2 - x2 * y1
    return a / 2


def densify(poly, K):
    out = []
    n = len(poly)
    for i in range(n):
        x1, y1 = poly[i]
        x2, y2 = poly[(i + 1) % n]
        for t in range(K):
            s = t / K
            out.append((x1 + (x2 - x1) * s, y1 + (y2 - y1) * s))
    return out


def breakpoints(p, q):
    """parameters t in (0, 1) at which segment p->q crosses a seam line (5 lines through the centre) or a pentagon edge line:
    the projection is only piecewise smooth, so polylines get a vertex exactly there"""
    ts = []
    dx, dy = q[0] - p[0], q[1] - p[1]
    for j in range(5):
        g = j * fp.A36
        cx, cy = math.cos(g), math.sin(g)
        den = dx * cy - dy * cx
        if den != 0:
            t = -(p[0] * cy - p[1] * cx) / den
            if 1e-12 < t < 1 - 1e-12:
                ts.append(t)
    for k in range(5):
        g = k * fp.A72
        cx, cy = math.cos(g), math.sin(g)
        den = dx * cx + dy * cy
        if den != 0:
            t = (fp.D_EDGE - (p[0] * cx + p[1] * cy)) / den
            if 1e-12 < t < 1 - 1e-12:
                ts.append(t)
    return sorted(set(ts))


def densify_smooth(poly, K):
    """K samples on every smooth piece of every edge"""
    out = []
    n = len(poly)
    for i in range(n):
        p, q = poly[i], poly[(i + 1) % n]
        ts = [0.0] + breakpoints(p, q) + [1.0]
        for a, b in zip(ts[:-1], ts[1:]):
            for m in range(K):
                t = a + (b - a) * m / K
                out.append((p[0] + (q[0] - p[0]) * t, p[1] + (q[1] - p[1]) * t))
    return out


def inside_domain(poly):
    return all(fp.in_domain(x, y, 1e-9) for x, y in densify(poly, 24))


def placements():
    """(name, x, y) of the places polygons are centred on"""
    out = [('centre', 0.0, 0.0)]
    for j in range(10):
        g = j * fp.A36
        rmax = fp.D_EDGE if j % 2 == 0 else fp.R_VERTEX
        for t in (0.2, 0.5, 0.8):
            out.append((f'seam{j}', t * rmax * math.cos(g), t * rmax * math.sin(g)))
    for k in range(5):
        for tt in (-0.5, 0.0, 0.4):
            tpos = tt * fp.D_EDGE * math.tan(fp.A36)
            out.append((f'edge{k}_straddle', ) + fp.from_local(fp.D_EDGE, tpos, k))
            out.append((f'edge{k}_beyond', ) + fp.from_local(fp.D_EDGE * 1.3, tpos * 0.5, k))
        a = fp.A36 + k * fp.A72
        out.append((f'vertex{k}_inside', 0.93 * fp.R_VERTEX * math.cos(a), 0.93 * fp.R_VERTEX * math.sin(a)))
        out.append((f'vertex{k}_inside_near', 0.995 * fp.R_VERTEX * math.cos(a), 0.995 * fp.R_VERTEX * math.sin(a)))
    return out


def kseq(size_fw):
    if size_fw >= 0.05:
        return [64, 256, 1024]
    if size_fw >= 0.005:
        return [16, 64, 256]
    return [4, 16, 64]


_BUF = [0.0, 0.0]


def sph_area(proj, poly, f, K, form=0):
    if form == 1:
        # the way a caller with a coordinate buffer does it: ONE list object, updated in place between the calls
        ring = []
        for p in densify_smooth(poly, K):
            _BUF[0], _BUF[1] = p[0], p[1]
            ring.append(cart(proj.inverse(_BUF, f)))
            if _BUF[0] != p[0] or _BUF[1] != p[1]:
                raise RuntimeError('inverse modified the coordinate list it was given')
    else:
        ring = [cart(proj.inverse(p, f)) for p in densify_smooth(poly, K)]
    return sp.ring_area(ring)


def rejected_calls(proj, p, f):
    """requests outside the statement's domain (no such face) made between two polygons; whatever they do, they must not change later results"""
    n = 0
    for ang, bad in ((math.radians(72.0), 12), (math.radians(-108.0), -13)):
        # a valid request elsewhere on the same face (the point turned about the face centre), then the rejected one at the polygon's start
        c, sn = math.cos(ang), math.sin(ang)
        try:
            proj.inverse((c * p[0] - sn * p[1], sn * p[0] + c * p[1]), f)
        except Exception:
            pass
        try:
            proj.inverse(p, bad)
        except Exception:
            n += 1
    return n


def check_poly(acc, proj, poly, f, name, size_fw, form=0, reject=False):
    acc.n['evaluations'] += 1
    acc.strata[name.split('_')[0].rstrip('0123456789')] += 1
    case = {'poly': [list(p) for p in poly], 'face': f, 'size': size_fw, 'form': form, 'reject': reject}
    k = f'c14:f{f}:{name}'
    pa = planar_area(poly)
    if reject:
        acc.n['rejected_calls_between_polygons'] += rejected_calls(proj, poly[0], f)
    if form:
        acc.n['polygons_through_one_reused_list'] += 1
    try:
        ks = kseq(size_fw)
        areas = [sph_area(proj, poly, f, K, form) for K in ks[:2]]
        lim = areas[1] + (areas[1] - areas[0]) / 15
        want = pa * SCALE
        if abs(abs(lim) / want - 1) > 1e-7:
            areas.append(sph_area(proj, poly, f, ks[2], form))
            lim = areas[2] + (areas[2] - areas[1]) / 15
    except Exception as e:
        acc.violation(k + ':raises', f'inverse raised {type(e).__name__}: {e}', case)
        return None
    # every densified polygon is a region too: its area may differ from the limit only by the discretisation error, which is at most
    # 0.0265/K^2 relative on the unchanged tree over the whole catalogue (measured; allowance 0.3/K^2) - the extrapolation from the last
    # two K alone would forgive a first evaluation that is wrong because of what was called before it
    for K, a in zip(ks, areas):
        relk = abs(abs(a) / want - 1)
        acc.maximum('discretisation_err_times_K2', relk * K * K, [f, name, K])
        if relk > 1e-6 + 0.3 / (K * K):
            acc.violation(k + ':area-at-K', f'{name} on face {f}: densified with {K} points per edge the spherical area is {abs(a)!r} vs planar area x constant {want!r} (rel {relk:.3g}, discretisation allowance {0.3 / (K * K):.3g})', case)
            return None
    rel = abs(abs(lim) / want - 1)
    acc.maximum('area_ratio_rel_err', rel, [f, name])
    if rel > 1e-6:
        acc.violation(k + ':area', f'{name} on face {f}: spherical area {abs(lim)!r} vs planar area x constant {want!r} (rel {rel:.3g}, limit 1e-6)', case)
        return None
    acc.n['nontrivial'] += 1
    acc.outcome((f, name))
    return lim > 0


def catalogue(tier):
    sizes = [1e-4, 1e-3, 1e-2, 0.1, 0.5]
    rots = [0.0, 0.7] if tier == 'thorough' else [0.3]
    kinds = ['tri', 'quad', 'thin']
    out = []
    for pname, px, py in placements():
        for sz in sizes:
            for kd in kinds:
                for ri, rot in enumerate(rots):
                    poly = [(px + x, py + y) for x, y in shape(kd, sz * FACE_WIDTH / 2, rot)]
                    if inside_domain(poly):
                        out.append((f'{pname}_{kd}_{sz:g}_r{ri}', poly, sz))
    return out


def anchored(tier):
    """fan triangles with ONE VERTEX EXACTLY ON a special point of the face plane (face centre, edge midpoints, pentagon vertices,
    points on seam rays): the unprojection is evaluated exactly at the points where it switches formulas"""
    out = []
    specials = [('centre', 0.0, 0.0)]
    for k in range(5):
        specials.append((f'edgemid{k}',) + fp.from_local(fp.D_EDGE, 0.0, k))
        a = fp.A36 + k * fp.A72
        specials.append((f'vertex{k}', fp.R_VERTEX * math.cos(a), fp.R_VERTEX * math.sin(a)))
    for j in range(10):
        g = j * fp.A36
        specials.append((f'onseam{j}', 0.4 * fp.D_EDGE * math.cos(g), 0.4 * fp.D_EDGE * math.sin(g)))
    sizes = [1e-3, 1e-2, 0.1, 0.3] if tier == 'quick' else [1e-4, 1e-3, 1e-2, 0.1, 0.3]
    for name, sx, sy in specials:
        for sz in sizes:
            rad = sz * FACE_WIDTH / 2
            for d in range(0, 360, 40):
                a1, a2 = math.radians(d), math.radians(d + 50)
                poly = [(sx, sy), (sx + rad * math.cos(a1), sy + rad * math.sin(a1)), (sx + rad * math.cos(a2), sy + rad * math.sin(a2))]
                if inside_domain(poly):
                    out.append((f'anchored_{name}_{sz:g}_d{d}', poly, sz))
    return out


def work(task):
    Proj = _lib()
    proj = Proj()
    acc = common.Acc()
    faces, items = task
    signs = {f: set() for f in faces}
    idx = 0
    for name, poly, sz in items:
        # ONE projection object serves all faces of the task, faces innermost (the same polygon on face after face): anything the object
        # keeps between calls meets the next face straight away
        for f in faces:
            # every second polygon goes through one reused coordinate list; before two of every four polygons a request for a face that does
            # not exist is made with the polygon's first vertex (a caller's slip that was caught and ignored)
            s = check_poly(acc, proj, poly, f, name, sz, form=idx % 2, reject=(idx % 4) in (1, 2))
            idx += 1
            if s is not None:
                signs[f].add(s)
    for f in faces:
        if len(signs[f]) > 1:
            acc.violation(f'c14:f{f}:orientation', f'face {f}: some polygons keep their orientation and some are mirrored', {'face': f, 'poly': [], 'size': 0})
    return acc


def run(tier, t0):
    acc = common.Acc()
    cat = catalogue(tier) + anchored(tier)
    tasks = []
    # four groups of three faces; one projection object per task serves its three faces
    sh = common.seed() % 3
    groups = [tuple((3 * g + j + sh) % 12 for j in range(3)) for g in range(4)]      # consecutive face numbers share a task (seed shifts the cut)
    for g in groups:
        for ch in common.chunks(cat, 40):
            tasks.append((g, ch))
    # and every face with every other face at least once: the first 40 polygons of the catalogue on all twelve faces through one object
    step = max(1, len(cat) // 40)
    tasks.append((tuple(range(12)), cat[0::step]))                       # a 1-in-`step` cross-section of all placements and sizes
    tasks.append((tuple(reversed(range(12))), cat[step // 2::step]))
    tasks = common.rotate(tasks, common.seed())
    common.pmap_merge(work, tasks, acc)
    acc.n['catalogue_polygons_per_face'] = len(cat)
    acc.sample({'face': 4, 'polygon': [list(p) for p in cat[len(cat) // 2][1]], 'name': cat[len(cat) // 2][0]})
    acc.sample({'constant': SCALE, 'meaning': '(4 pi / 12) / area of the face pentagon'})
    rule = (f'12 faces x {len(cat)} polygons (one projection object serves three faces at a time, faces innermost; two tasks take a 1-in-n cross-section of the catalogue over all twelve faces through one object): triangles, quads and thin triangles at sizes 1e-4..0.5 face widths centred on the face centre, on each of the 10 seam rays at 3 radii, '
            'straddling and beyond each of the 5 edges, and inside each vertex (only polygons wholly inside the pentagon or a mirror triangle); plus fan triangles with one vertex exactly on the face centre, an edge midpoint, a pentagon vertex or a seam ray; edges densified at K, 4K(, 16K) and Richardson-extrapolated; every second polygon is passed through one coordinate list updated in place, and before half of the polygons a request for a non-existent face is made and its exception ignored; '
            'non-trivial = polygons whose area ratio met 1e-6')
    return common.finish(PID, LEVEL, tier, acc, t0, rule, [
        'spherical area by the signed spherical-excess formula in difference form on the unprojected polyline; discretisation error ~K^-2 extrapolated from the last two K',
        'the global constant is (sphere area / 12) / (5 d^2 tan 36 deg) with d = (sqrt(5) - 1)/2, computed independently of the library',
    ], exhaustive=False)


def replay(case):
    acc = common.Acc()
    if not case.get('poly'):
        return [('c14:orientation', 're-run the check')]
    proj = _lib()()
    poly = [tuple(p) for p in case['poly']]
    # the recorded polygon in every presentation, preceded by a polygon elsewhere on the face (the memo-free library does not care)
    other = [(0.05, 0.02), (0.09, 0.02), (0.07, 0.06)]
    for form in (0, 1):
        for reject in (False, True):
            check_poly(common.Acc(), proj, other, case['face'], 'warmup', 0.05)
            check_poly(acc, proj, poly, case['face'], 'replay', case['size'], form, reject)
    return [(k, w) for k, w, _ in acc.violations]
