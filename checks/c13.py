"""C13 - dodecahedral projection and its inverse are mutual inverses on every face (structured input lattice)."""
import math
from vf import common, sphere as sp, faceplane as fp, geo

PID = 'C13'
LEVEL = 'exploration'
TOL = 1e-11
SEEN = set()       # per worker task: distinct inputs already counted as non-trivial (warm repeats are not counted twice)


def _lib():
    from a5.projections.dodecahedron import DodecahedronProjection
    from a5.core.origin import origins
    return DodecahedronProjection, origins


def sph(v):
    return (math.atan2(v[1], v[0]), math.atan2(math.hypot(v[0], v[1]), v[2]))


def cart(s):
    th, ph = s
    return (math.sin(ph) * math.cos(th), math.sin(ph) * math.sin(th), math.cos(ph))


_CENTRES = None
_TURN = 0


def centres():
    global _CENTRES
    if _CENTRES is None:
        _, origins = _lib()
        _CENTRES = [cart(o.axis) for o in origins]
    return _CENTRES


def faces_for(v):
    """(nearest face, second-nearest face or None when the second/third are too close to tell apart)"""
    ds = sorted(((sp.dot(v, c), i) for i, c in enumerate(centres())), reverse=True)
    second = ds[1][1] if ds[1][0] - ds[2][0] > 1e-9 else None
    return ds[0][1], second


def check_dir(acc, proj, v, stratum):
    """sphere -> plane -> sphere on the nearest and the edge-adjacent face"""
    f1, f2 = faces_for(v)
    s = sph(v)
    for role, f in (('nearest', f1), ('adjacent', f2)):
        if f is None:
            acc.n['adjacent_face_ambiguous_skipped'] += 1
            continue
        acc.n['evaluations'] += 1
        acc.strata[f'{stratum}:{role}'] += 1
        case = {'kind': 'dir', 'v': list(v), 'face': f}
        k = f'c13:dir:{v[0]!r},{v[1]!r},{v[2]!r}:f{f}'
        try:
            q = proj.forward(s, f)
            back = proj.inverse(q, f)
        except Exception as e:
            acc.violation(k + ':raises', f'forward/inverse raised {type(e).__name__}: {e} for direction {v!r} on face {f}', case)
            continue
        if not (math.isfinite(q[0]) and math.isfinite(q[1]) and math.isfinite(back[0]) and math.isfinite(back[1])):
            acc.violation(k + ':nan', f'non-finite result for direction {v!r} on face {f}: {q!r} -> {back!r}', case)
            continue
        err = sp.angle(v, cart(back))
        acc.maximum(f'sphere_roundtrip_rad:{role}', err, [list(v), f])
        if err > TOL:
            acc.violation(k + ':roundtrip', f'direction {v!r} on face {f} ({role}): project/unproject moves it by {err:.3g} rad (limit 1e-11)', case)
            continue
        # the same point of the sphere with its azimuth written whole turns away (what from_lonlat yields for longitudes outside
        # [-180, 180]): every third evaluation, -2, -1 and +1 turns in rotation
        global _TURN
        _TURN += 1
        if _TURN % 3 == 0:
            m = (-2, -1, 1)[(_TURN // 3) % 3]
            s2 = (s[0] + 2 * math.pi * m, s[1])
            try:
                q2 = proj.forward(s2, f)
                back2 = proj.inverse(q2, f)
                err2 = sp.angle(v, cart(back2))
            except Exception as e:
                acc.violation(k + ':turns-raises', f'forward/inverse raised {type(e).__name__}: {e} for direction {v!r} written with azimuth {s2[0]!r} on face {f}', dict(case, turns=m))
                continue
            acc.n['azimuth_written_whole_turns_away'] += 1
            if not err2 <= TOL:
                acc.violation(k + ':turns', f'direction {v!r} on face {f} ({role}) written with its azimuth {m} turns away ({s2[0]!r}): project/unproject moves it by {err2:.3g} rad (limit 1e-11)', dict(case, turns=m))
                continue
        key = (v, f)
        if key not in SEEN:
            SEEN.add(key)
            acc.n['nontrivial'] += 1
        acc.outcome((f, round(q[0], 2), round(q[1], 2)))


def check_plane(acc, proj, x, y, f, stratum, as_list=False):
    acc.n['evaluations'] += 1
    acc.strata[stratum] += 1
    case = {'kind': 'plane', 'xy': [x, y], 'face': f, 'as_list': as_list}
    k = f'c13:plane:{x!r},{y!r}:f{f}' + (':list' if as_list else '')
    try:
        # the second pass hands the coordinates over as lists (vectors are plain sequences in this code base: vec2/vec3 helpers return lists)
        s = proj.inverse([x, y] if as_list else (x, y), f)
        q = proj.forward(list(s) if as_list else s, f)
    except Exception as e:
        acc.violation(k + ':raises', f'inverse/forward raised {type(e).__name__}: {e} for face point {(x, y)!r} on face {f}', case)
        return
    err = math.hypot(q[0] - x, q[1] - y) if all(map(math.isfinite, q)) else float('inf')
    acc.maximum('plane_roundtrip', err, [x, y, f])
    if not (err <= TOL):
        acc.violation(k + ':roundtrip', f'face point {(x, y)!r} on face {f}: unproject/project returns {q!r} (error {err:.3g}, limit 1e-11)', case)
        return
    key = (x, y, f)
    if key not in SEEN:
        SEEN.add(key)
        acc.n['nontrivial'] += 1


def fib_dirs(n, lo, hi):
    ga = math.pi * (3 - math.sqrt(5))
    for i in range(lo, hi):
        z = 1 - (2 * i + 1) / n
        r = math.sqrt(max(0.0, 1 - z * z))
        yield (r * math.cos(ga * i), r * math.sin(ga * i), z)


def work_dirs(task):
    SEEN.clear()
    Proj, _ = _lib()
    proj = Proj()                      # cold caches for this task
    acc = common.Acc()
    kind = task[0]
    if kind == 'fib':
        _, n, lo, hi = task
        dirs = list(fib_dirs(n, lo, hi))
        for v in dirs:
            check_dir(acc, proj, v, 'lattice')
        for v in reversed(dirs[::7]):          # warm caches, reversed order
            check_dir(acc, proj, v, 'lattice_warm')
    else:
        _, idx, ndir = task
        from a5.projections.dodecahedron import crs
        c = sp.unit(tuple(crs.vertices[idx]))
        kindname = 'face_centre' if idx < 12 else ('face_vertex' if idx < 32 else 'edge_midpoint')
        e1, e2 = sp.basis(c)
        check_dir(acc, proj, c, kindname)
        for s in [10.0 ** -k for k in range(13, 0, -1)]:
            for j in range(ndir):
                a = 2 * math.pi * (j + 0.25) / ndir
                d = sp.add(sp.scale(e1, math.cos(a)), sp.scale(e2, math.sin(a)))
                v = sp.unit(sp.add(sp.scale(c, math.cos(s)), sp.scale(d, math.sin(s))))
                check_dir(acc, proj, v, kindname)
    return acc


def plane_points(nazi):
    """(stratum, x, y) inside the pentagon and the five mirror triangles, dense near seams, edges and vertices"""
    pts = []
    fr = [1e-9, 1e-6, 1e-3, 0.01, 0.1, 0.25, 0.5, 0.75, 0.9, 0.99, 0.999, 0.999999, 1.0, 1.000001, 1.001, 1.01, 1.1, 1.3, 1.6, 1.9, 1.99]
    for i in range(nazi):
        g = 2 * math.pi * (i + 0.37) / nazi
        beta = g - round(g / fp.A72) * fp.A72
        redge = fp.D_EDGE / math.cos(beta)
        for t in fr:
            x, y = t * redge * math.cos(g), t * redge * math.sin(g)
            if fp.in_domain(x, y):
                pts.append(('polar', x, y))
    offs = [10.0 ** -k for k in range(12, 2, -1)]
    # both sides of every seam ray (10 azimuths) at several radii, inside the pentagon and beyond the edge
    for j in range(10):
        g0 = j * fp.A36
        for t in (0.05, 0.4, 0.8, 0.97):
            rho = t * (fp.D_EDGE if j % 2 == 0 else fp.R_VERTEX)
            for o in offs:
                for sgn in (-1, 1):
                    g = g0 + sgn * o / max(rho, 1e-3)
                    pts.append(('seam', rho * math.cos(g), rho * math.sin(g)))
    # both sides of every edge line
    for k in range(5):
        for tt in (-0.9, -0.5, -0.1, 0.0, 0.2, 0.6, 0.95):
            tpos = tt * fp.D_EDGE * math.tan(fp.A36)
            for o in offs:
                for sgn in (-1, 1):
                    x, y = fp.from_local(fp.D_EDGE + sgn * o, tpos, k)
                    if fp.in_domain(x, y):
                        pts.append(('edge', x, y))
    # around every pentagon vertex (inside the pentagon or inside a mirror triangle)
    for k in range(5):
        vx, vy = fp.R_VERTEX * math.cos(fp.A36 + k * fp.A72), fp.R_VERTEX * math.sin(fp.A36 + k * fp.A72)
        for o in offs:
            for a in range(8):
                x, y = vx + o * math.cos(a * math.pi / 4 + 0.1), vy + o * math.sin(a * math.pi / 4 + 0.1)
                if fp.in_domain(x, y):
                    pts.append(('vertex', x, y))
    # exactly at, and 1e-13..1e-16 from, every vertex of the projection's triangles (pentagon vertices, edge midpoints, mirror apexes):
    # the inverse snaps to the triangle vertex there
    tiny = [0.0, 1e-16, 1e-15, 1e-14, 1e-13]
    for k in range(5):
        a = fp.A36 + k * fp.A72
        specials = [(fp.R_VERTEX * math.cos(a), fp.R_VERTEX * math.sin(a)), fp.from_local(fp.D_EDGE, 0.0, k), fp.from_local(2 * fp.D_EDGE, 0.0, k)]
        for sx, sy in specials:
            for o in tiny:
                for (dx, dy) in ((-1, 0), (0, 1), (0, -1), (-0.7, 0.7), (-0.7, -0.7), (1, 0)):
                    # displacement towards the centre / along the edge keeps the point inside the domain
                    n = math.hypot(sx, sy)
                    ux, uy = sx / n, sy / n
                    x = sx + o * (dx * ux - dy * uy)
                    y = sy + o * (dx * uy + dy * ux)
                    if fp.in_domain(x, y, -1e-12):
                        pts.append(('triangle_vertex', x, y))
    # exactly on the coordinate axes (y or x exactly +0.0 / -0.0: the seam rays at azimuth 0 and 180 degrees and the generic axis at +-90)
    # and exactly on the other eight seam rays as far as doubles allow, from 1e-15 to the domain limit
    ladder = [10.0 ** -k for k in range(15, 0, -1)] + [0.2, 0.3, 0.45, 0.6, 0.75, 0.9, 1.0, 1.1, 1.2]
    for t in ladder:
        for x, y in ((t, 0.0), (t, -0.0), (-t, 0.0), (-t, -0.0), (0.0, t), (-0.0, t), (0.0, -t), (-0.0, -t)):
            if fp.in_domain(x, y):
                pts.append(('axis', x, y))
        for j in range(1, 10):
            if j != 5:
                x, y = t * math.cos(j * fp.A36), t * math.sin(j * fp.A36)
                if fp.in_domain(x, y):
                    pts.append(('on_seam', x, y))
    # near the centre
    for o in [10.0 ** -k for k in range(15, 2, -1)]:
        for a in range(6):
            pts.append(('centre', o * math.cos(a + 0.2), o * math.sin(a + 0.2)))
    pts.append(('centre', 0.0, 0.0))
    # inside the mirror triangles: near the apex and along their outer sides
    for k in range(5):
        for o in offs + [0.01, 0.1]:
            x, y = fp.from_local(2 * fp.D_EDGE - o, 0.0, k)
            pts.append(('mirror_apex', x, y))
            for sgn in (-1, 1):
                u = fp.D_EDGE * 1.5
                x, y = fp.from_local(u, sgn * ((2 * fp.D_EDGE - u) * math.tan(fp.A36) - o), k)
                if fp.in_domain(x, y):
                    pts.append(('mirror_side', x, y))
    return pts


def work_plane(task):
    SEEN.clear()
    Proj, _ = _lib()
    proj = Proj()
    acc = common.Acc()
    f, nazi = task
    pts = plane_points(nazi)
    for st, x, y in pts:
        check_plane(acc, proj, x, y, f, 'plane_' + st)
    for st, x, y in reversed(pts[::5]):
        check_plane(acc, proj, x, y, f, 'plane_warm', as_list=True)
    return acc


def work_instances(task):
    """many projection objects used one after the other in ONE process (they share the module-level frame): every instance must give
    bit-identical results for the same points, on all 240 triangle pieces (direct and reflected)"""
    Proj, _ = _lib()
    acc = common.Acc()
    n_inst = task
    pts = []
    for f in range(12):
        for tri in range(10):
            g = (tri + 0.5) * fp.A36
            for rho in (0.4 * fp.D_EDGE, 1.3 * fp.D_EDGE):
                x, y = rho * math.cos(g), rho * math.sin(g)
                if fp.in_domain(x, y, 1e-6):
                    pts.append((x, y, f))
    first = None
    for i in range(n_inst):
        proj = Proj()
        vals = []
        for x, y, f in pts:
            acc.n['evaluations'] += 1
            acc.strata['instances'] += 1
            try:
                s_ = proj.inverse((x, y), f)
                q = proj.forward(s_, f)
                vals.append((s_, q))
                if not (math.hypot(q[0] - x, q[1] - y) <= TOL):
                    acc.violation(f'c13:instance{i}:roundtrip:{x!r},{y!r}:f{f}', f'projection object #{i + 1} of this process: face point {(x, y)!r} on face {f} comes back as {q!r}', {'kind': 'instances', 'n': n_inst})
                    return acc
            except Exception as e:
                acc.violation(f'c13:instance:raises:{type(e).__name__}', f'projection object #{i + 1} created in one process raised {type(e).__name__}: {e} for face point {(x, y)!r} on face {f}', {'kind': 'instances', 'n': n_inst})
                return acc
        if first is None:
            first = vals
        elif vals != first:
            acc.violation(f'c13:instance{i}:differs', f'projection object #{i + 1} returns different values than the first object for the same points', {'kind': 'instances', 'n': n_inst})
            return acc
    acc.n['nontrivial'] += len(pts)
    return acc


def run(tier, t0):
    acc = common.Acc()
    n = 200000 if tier == 'quick' else 1000000
    tasks = [(work_dirs, ('fib', n, lo, min(lo + 2500, n))) for lo in range(0, n, 2500)]
    tasks += [(work_dirs, ('frame', i, 6 if tier == 'quick' else 12)) for i in range(62)]
    tasks += [(work_plane, (f, 240 if tier == 'quick' else 720)) for f in range(12)]
    tasks += [(work_instances, 20 if tier == 'quick' else 60)]
    tasks = common.rotate(tasks, common.seed())
    for part in common.pmap(_dispatch, tasks):
        acc.merge(part)
    acc.sample({'direction': [0.0, 0.0, 1.0], 'faces': 'nearest and edge-adjacent', 'check': 'angle(v, inverse(forward(v))) <= 1e-11'})
    acc.sample({'face point': [fp.D_EDGE + 1e-9, 0.1], 'face': 7, 'check': '|forward(inverse(p)) - p| <= 1e-11 (just beyond an edge: reflected triangle)'})
    rule = (f'sphere->plane->sphere: Fibonacci lattice of {n} directions and log-scaled neighbourhoods (1e-13..1e-1 rad) of the 62 frame points, each on its nearest and (when unambiguous) its edge-adjacent face; '
            'plane->sphere->plane: for all 12 faces a polar lattice over the pentagon and the five mirror triangles plus points 1e-12..1e-3 on both sides of every seam ray, edge line, vertex, the centre and the mirror apexes, and points exactly on the coordinate axes (+0.0 and -0.0) and on the seam rays; '
            'each task uses a fresh projection object (cold caches) and repeats a fifth of its points in reverse order (warm, coordinates passed as lists instead of tuples); non-trivial = distinct inputs whose round trip is within 1e-11 (the warm repeats are evaluated but not counted again)')
    return common.finish(PID, LEVEL, tier, acc, t0, rule, [
        'the adjacent face is taken as the second-nearest face centre; skipped when second and third nearest differ by < 1e-9 in cosine (at a face vertex the third face is outside the statement)',
        'angles by atan2(|a x b|, a.b); spherical <-> cartesian conversions of the oracle are its own (atan2 colatitude)',
        'between lattice points the result relies on smoothness of the projection inside each of its 240 triangle pieces; seams, edges and vertices are approached from both sides down to 1e-12',
    ], exhaustive=False)


def _dispatch(t):
    return t[0](t[1])


def replay(case):
    Proj, _ = _lib()
    acc = common.Acc()
    if case['kind'] == 'instances':
        acc = work_instances(case['n'])
        return [(k, w) for k, w, _ in acc.violations]
    if case['kind'] == 'dir':
        for _ in range(19 if 'turns' in case else 1):      # the turn variants rotate with the evaluation counter: 19 calls present all of them on both faces
            check_dir(acc, Proj(), tuple(case['v']), 'replay')
    else:
        check_plane(acc, Proj(), case['xy'][0], case['xy'][1], case['face'], 'replay', as_list=bool(case.get('as_list')))
    return [(k, w) for k, w, _ in acc.violations]
