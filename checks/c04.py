"""C04 - all cells of a resolution have equal area (E1 with converged ring areas)."""
import math
from vf import common, refmodel as rm, seeds, sphere as sp, geo

PID = 'C04'
LEVEL = 'exploration'
R_AUTH = 6371007.2
DISC = 0.1      # measured on the unchanged tree: at most 0.0115 (cells straddling a seam of the projection)


def kseq(r):
    if r < 6:
        return [16, 64, 256, 1024]
    if r < 12:
        return [4, 16, 64, 256, 1024]
    return [1, 4, 16, 64, 256]


def converged_area(c, r):
    """Richardson limit of the ring area over K, 4K (error ~ K^-2); escalates K until two successive limits agree"""
    ks = kseq(r)
    areas = []
    limits = []
    for K in ks:
        rg = geo.ring(c, K, cache=False)
        if len(rg) != (3 if r == 1 else 5) * K:
            raise ValueError(f'open ring with {K} segments per edge has {len(rg)} vertices, expected {(3 if r == 1 else 5) * K}')
        areas.append(sp.ring_area(rg))
        if len(areas) >= 2:
            limits.append(areas[-1] + (areas[-1] - areas[-2]) / 15.0)
        if len(limits) >= 2 and abs(limits[-1] - limits[-2]) <= 2e-7 * abs(limits[-1]):
            break
    settled = len(limits) >= 2 and abs(limits[-1] - limits[-2]) <= 2e-7 * abs(limits[-1])
    return limits[-1], settled, K, areas


def check_cell(acc, a5, c, r, label):
    acc.n['evaluations'] += 1
    acc.strata[f'r{r:02d}'] += 1
    case = {'cell': hex(c), 'r': r}
    k = f'c04:{label}'
    try:
        area, settled, K, areas = converged_area(c, r)
        api_area = a5.cell_area(r) / (R_AUTH * R_AUTH)
        ncells = a5.get_num_cells(r)
    except Exception as e:
        acc.violation(k + ':raises', f'raised {type(e).__name__}: {e}', case)
        return
    want = 4 * math.pi / rm.num_cells(r)
    allow = 1e-6 + 6.5e-15 / sp.width(r)
    if not settled:
        acc.n['not_settled_at_K_cap'] += 1
        allow += 2e-6          # the K sequence did not settle: only a coarser statement can be made
    # every K-gon is judged too (the extrapolation uses the last two only and would forgive a first ring that is wrong because of what was
    # called before it): discretisation error <= DISC/K^2 relative, DISC = 10x the largest value seen on the unchanged tree
    for Kk, a in zip(kseq(r), areas):
        relk = abs(a / want - 1)
        acc.maximum('discretisation_err_times_K2', relk * Kk * Kk, [hex(c), Kk])
        if relk > allow + DISC / (Kk * Kk):
            acc.violation(k + ':area-at-K', f'ring of {c:#x} (res {r}) with {Kk} segments per edge encloses {a!r} sr, expected {want!r} (rel {relk:.3g}, discretisation allowance {DISC / (Kk * Kk):.3g})', case)
            return
    rel = abs(area / want - 1)
    acc.maximum('area_rel_err_over_allowance', rel / allow, [hex(c), K])
    acc.maximum(f'area_rel_err_r{r:02d}', rel, hex(c))
    if rel > allow:
        acc.violation(k + ':area', f'area of {c:#x} (res {r}) converges to {area!r} sr, expected 4pi/{rm.num_cells(r)} = {want!r} (rel {rel:.3g}, allowed {allow:.3g}, K up to {K})', case)
        return
    if abs(api_area / want - 1) > 1e-12 or ncells != rm.num_cells(r):
        acc.violation(f'c04:metadata:r={r}', f'cell_area({r})/R^2 = {api_area!r} or get_num_cells = {ncells} disagree with 4pi/N = {want!r}', case)
        return
    acc.n['nontrivial'] += 1
    acc.outcome(round(math.log10(max(rel, 1e-18)), 1))


def work_paths(task):
    a5 = geo.api()
    acc = common.Acc()
    for path in task:
        check_cell(acc, a5, rm.encode(path), rm.res(path), '/'.join(map(str, path)))
    return acc


def work_site(task):
    a5 = geo.api()
    acc = common.Acc()
    kind, lon, lat, rs = task
    seen = set()
    for r in rs:
        w = sp.width(r)
        for p in geo.neighbourhood(lon, lat, 2, [0.5 * w]):
            try:
                c = a5.lonlat_to_cell(p, r)
            except Exception:
                continue
            if c in seen or rm.decode(c) is None:
                continue
            seen.add(c)
            check_cell(acc, a5, c, r, f'{c:#x}')
            acc.strata[f'site_{kind}'] += 1
    return acc


def run(tier, t0):
    acc = common.Acc()
    R = 4 if tier == 'quick' else 5
    tasks = []
    for r in range(0, R + 1):
        for ch in common.chunks(rm.interleaved(rm.descendants((), r)), 12):
            tasks.append((work_paths, ch))
    deep = []
    for r in range(R + 1, 30):
        pats = seeds.g1_patterns(r - 1, 'basic')
        for i, d in enumerate(pats):
            for j in range(1 if tier == 'quick' else 4):
                deep.append(((i + r + common.seed() + 5 * j) % 12, (i * 3 + r + j) % 5) + d)
    for ch in common.chunks(sorted(set(deep)), 24):
        tasks.append((work_paths, ch))
    for kind, lon, lat in geo.special_sites(tier, common.seed()):
        rs = list(range(0, 30)) if tier == 'thorough' else list(range(common.seed() % 4, 30, 4)) + [26, 27, 28, 29]
        tasks.append((work_site, (kind, lon, lat, sorted(set(rs)))))
    tasks = common.rotate(tasks, common.seed())
    for part in common.pmap(_dispatch, tasks, chunksize=1):
        acc.merge(part)
    acc.sample({'cell': hex(rm.encode((5, 2, 1))), 'areas at K=16,64,256': 'Richardson limit A + (A - A_prev)/15', 'expected': 4 * math.pi / rm.num_cells(2)})
    rule = (f'every cell of resolutions 0..{R}; G1[basic] digit-pattern cells and the cells at the special sites (poles, antimeridian, the meridian where the raw longitude of the library wraps, face centres/vertices/edge midpoints, face-edge points) up to resolution 29; '
            'ring area at K, 4K, 16K(, 64K) segments per edge, Richardson-extrapolated, and every single K-gon within the allowance + 0.1/K^2 (discretisation); non-trivial = cells whose converged area met the bound')
    return common.finish(PID, LEVEL, tier, acc, t0, rule, [
        'ring vertices converted with the closed-form WGS84 authalic latitude (not the library series); area by the signed spherical-excess formula in difference form',
        'allowance 1e-6 + (6.5e-15 rad)/width(r): the second term is the numerical accuracy of double-precision boundary coordinates (statement: "to within the numerical accuracy of the boundary"); measured noise on the unchanged tree is 1.6e-15/width (coverage.maxima.area_rel_err_r*), i.e. the allowance leaves 5x head-room at resolution 29',
        'the discretisation error of a K-segment ring decays as K^-2 (measured); the limit is extrapolated from the last two K',
    ], exhaustive=False)


def _dispatch(t):
    return t[0](t[1])


def replay(case):
    acc = common.Acc()
    check_cell(acc, geo.api(), int(case['cell'], 16), case['r'], 'replay')
    return [(k, w) for k, w, _ in acc.violations]
