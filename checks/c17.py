"""C17 - every API call is a pure function of its arguments (E5 history explorer).

BFS over call histories from the pristine library state, one forked process per transition, canonical state hashing,
oracle = the value the same single call returns from the pristine state (itself validated against fresh interpreters).
"""
import os
import sys
import math
import pickle
import base64
import subprocess
from vf import common, history

PID = 'C17'
LEVEL = 'model_checking'


def prepare(tier):
    """throw-away process: build the event menu with the library's own geometry (one point per face x triangle x {inside, near edge})"""
    import a5
    from a5.core.cell import _dodecahedron
    from a5.core.coordinate_transforms import to_lonlat, to_face
    from a5.core.constants import distance_to_edge, PI_OVER_5, TWO_PI_OVER_5
    geo = []
    for f in range(12):
        for tri in range(10):
            gamma = (tri + 0.5) * PI_OVER_5
            beta = gamma - round(gamma / TWO_PI_OVER_5) * TWO_PI_OVER_5
            for kind, rho, res in (('in', 0.45 * distance_to_edge, 3), ('edge', 0.985 * distance_to_edge / math.cos(beta), 5)):
                lon, lat = to_lonlat(_dodecahedron.inverse(to_face((rho, gamma)), f))
                lon = (lon + 180) % 360 - 180
                cell = a5.lonlat_to_cell((lon, lat), res)
                geo.append((f, tri, kind, (lon, lat), res, cell))
    c7 = a5.lonlat_to_cell((12.5, 41.9), 7)
    sib = a5.cell_to_children(a5.cell_to_parent(c7, 5), 7)
    # tie clusters: points lying exactly on a cell's boundary (ring vertices: corners and edge midpoints, shared by 2-5 cells)
    # together with the centres of that cell and of the cells around it, all at one resolution
    clusters = []
    for f, tri, kind, p, res, cell in geo:
        if kind == 'in' and tri == 3:
            for r in (2, 3, 5, 8, 13, 21, 29):
                x = a5.lonlat_to_cell(p, r)
                ring = a5.cell_to_boundary(x, {'segments': 2, 'closed_ring': False})
                cx = a5.cell_to_lonlat(x)
                around = {x}
                for v in ring:
                    dx, dy = v[0] - cx[0], v[1] - cx[1]
                    for ca, sa in ((1.0, 0.0), (0.5, 0.866), (0.5, -0.866)):
                        q = (v[0] + 0.3 * (ca * dx - sa * dy), v[1] + 0.3 * (sa * dx + ca * dy))
                        if -90 <= q[1] <= 90:
                            around.add(a5.lonlat_to_cell(q, r))
                # the cell itself and two of its neighbours also enter the cluster as inverse-projection calls (ring and centre): whether
                # the forward and the inverse code of one triangle have already run must not move a point that lies exactly on an edge
                clusters.append((f'f{f:02d}r{r:02d}', r, [tuple(v) for v in ring], [tuple(a5.cell_to_lonlat(y)) for y in sorted(around)], 2,
                                 [x] + [y for y in sorted(around) if y != x][:2]))
    # polar clusters: high-latitude points for which the neighbour search needs its second (tangent-plane) pass - found by counting, with
    # the schedule explorer's site counter, calls of the estimate helper that do not come from the first pass
    from vf import sched as _sched
    prefix = os.path.dirname(os.path.realpath(a5.__file__)) + os.sep
    need2 = {3: [], 9: []} if tier == 'thorough' else {3: []}
    cand = []
    for sgn in (1, -1):
        for i in range(60):
            for d in ((9.5, 7.3, 5.1, 2.7, 0.9, 0.2) if tier == 'thorough' else (7.3, 2.7, 0.9)):
                cand.append(((i * 6.0 + d) % 360 - 180, sgn * (90.0 - d)))
    for r in need2:
        for pt in cand:
            if len(need2[r]) >= 7:
                break
            try:
                cnt = _sched.Explorer(prefix, 'line').count_sites(lambda: a5.lonlat_to_cell(pt, r))
            except Exception:
                break
            per_func = {}
            for (fn, func, line), n in cnt.items():
                per_func.setdefault(func, {})[line] = n
            first = lambda f: (min(per_func[f].items())[1] if f in per_func else 0)
            if first('_spherical_to_estimate') > first('_lonlat_to_estimate'):
                need2[r].append(pt)
    for r, pts in need2.items():
        if len(pts) < 3:      # fall back to points that needed the second pass on the pinned tree
            pts = [(-33.218299099680046, -84.91007734884018), (-30.59405475538334, -82.89311063022787), (-46.00618373625746, -84.69818693286045),
                   (-44.81536919939957, -87.27720708515018), (-47.09162366839446, -87.32531927448322)]
        clusters.append((f'polar_r{r:02d}', r, pts[:7], [(0.0, 89.0), (0.0, -89.0)], 3))
    # face-edge clusters: points at log-scaled distances on both sides of a dodecahedron edge (at its midpoint and a little along it), all
    # at one resolution: which face the previous call ended on must not decide the face of a point next to the edge
    from vf import geo as _geo, sphere as _sp
    fr = _geo.frame_points()
    centres_v = [_sp.vec((lo, la)) for kk_, lo, la in fr if kk_ == 'face_centre']
    mids = [(lo, la) for kk_, lo, la in fr if kk_ == 'edge_midpoint']
    pick = mids if tier == 'thorough' else mids[common.seed() % 3::3]
    for ei, (lo, la) in enumerate(pick):
        m = _sp.vec((lo, la))
        c1, c2 = sorted(centres_v, key=lambda v: _sp.angle(v, m))[:2]
        across = _sp.unit(_sp.sub(c1, c2))
        along = _sp.unit(_sp.cross(m, across))
        pts = []
        for shift in (0.0, 0.004):
            base = _sp.unit(_sp.add(m, _sp.scale(along, shift)))
            for sgn in (1.0, -1.0):
                for sc in ((1e-9, 1e-7, 1e-6, 1e-5, 3e-5, 1e-4, 1e-3, 1e-2, 0.2) if shift == 0.0 else (1e-6, 1e-5, 1e-4)):
                    pts.append(tuple(_sp.lonlat(_sp.unit(_sp.add(base, _sp.scale(across, sgn * sc))))))
        for r in ((0, 1, 8, 20, 29) if tier == 'thorough' else (0, 20)):
            clusters.append((f'edge{ei:02d}r{r:02d}', r, pts, [], 2, [], 'edge'))
    # low resolutions have their own code paths (face pentagon, quintant triangles): cells and points for faces 0, 5, 11
    low = []
    for f, tri, kind, p, res, cell in geo:
        if kind == 'in' and f in (0, 5, 11) and tri in (1, 6):
            low.append((f'f{f:02d}t{tri}', p, a5.lonlat_to_cell(p, 0), a5.lonlat_to_cell(p, 1), a5.lonlat_to_cell(p, 2)))
    return {'geo': geo, 'c7': c7, 'sib': sib, 'res0': a5.get_res0_cells(), 'clusters': clusters, 'low': low}


def build_menu(k, faces=None, tris=None):
    menu = []
    for f, tri, kind, p, res, cell in k['geo']:
        if faces is not None and f not in faces and not (tris is not None and tri in tris):
            continue
        tag = f'f{f:02d}t{tri}{kind}'
        menu.append((f'lonlat_to_cell:{tag}', 'lonlat_to_cell', (p, res), False))
        menu.append((f'cell_to_boundary:{tag}', 'cell_to_boundary', (cell, {'segments': 2}), kind == 'in'))
        menu.append((f'cell_to_lonlat:{tag}', 'cell_to_lonlat', (cell,), False))
    for tag, p, c0, c1, c2 in k['low']:
        menu.append((f'low:lonlat_to_cell0:{tag}', 'lonlat_to_cell', (p, 0), False))
        menu.append((f'low:lonlat_to_cell1:{tag}', 'lonlat_to_cell', (p, 1), False))
        for r, c in ((0, c0), (1, c1), (2, c2)):
            menu.append((f'low:cell_to_boundary:seg1:r{r}:{tag}', 'cell_to_boundary', (c, {'segments': 1}), False))
            menu.append((f'low:cell_to_boundary:auto:r{r}:{tag}', 'cell_to_boundary', (c,), True))
            menu.append((f'low:cell_to_lonlat:r{r}:{tag}', 'cell_to_lonlat', (c,), False))
    menu += pure_menu(k)
    return menu


def pure_menu(k):
    c7, sib, res0 = k['c7'], k['sib'], k['res0']
    return [
        ('compact:sib', 'compact', (list(reversed(sib)) + [res0[3]],), True),
        ('compact:res0', 'compact', (list(res0),), True),
        ('uncompact', 'uncompact', ([sib[0], sib[5]], 9), True),
        ('cell_to_children', 'cell_to_children', (c7, 9), True),
        ('cell_to_children:world', 'cell_to_children', (0, 1), True),
        ('cell_to_children:quad_a', 'cell_to_children', (c7,), False),
        ('cell_to_children:quad_b', 'cell_to_children', (sib[1],), False),
        ('cell_to_children:quad_mut', 'cell_to_children', (sib[2],), True),
        ('uncompact:one_level', 'uncompact', ([sib[3]], 8), False),
        ('uncompact:nothing_to_expand', 'uncompact', ([sib[0], sib[1], sib[2]], 7), True),
        ('compact:nothing_to_merge', 'compact', ([sib[0], sib[2]],), True),
        ('cell_to_children:same_resolution', 'cell_to_children', (c7, 7), True),
        ('compact:plain', 'compact', (list(sib[:7]),), False),
        ('compact:ascending_with_duplicates', 'compact', (sorted(list(sib[:6]) + [sib[2], sib[5]]),), False),
        # calls that are rejected are calls too: they must leave nothing behind
        ('error:uncompact_finer_after_valid', 'uncompact', ([res0[2], sib[0], c7], 6), False),
        ('error:uncompact_target_31', 'uncompact', ([sib[1], sib[2]], 31), False),
        ('error:cell_to_children_coarser', 'cell_to_children', (c7, 3), False),
        ('error:cell_to_parent_finer', 'cell_to_parent', (c7, 12), False),
        ('error:hex_to_u64_bad', 'hex_to_u64', ('not-hex',), False),
        # resolution 30 is advertised but cannot be encoded (known finding of C05): such calls raise today and must leave nothing behind
        ('error:lonlat_to_cell_r30', 'lonlat_to_cell', ((12.5, 41.9), 30), False),
        ('error:cell_to_children_r30', 'cell_to_children', (rm_child29(c7), 30), False),
        ('error:uncompact_r30', 'uncompact', ([sib[1]], 30), False),
        ('uncompact:after_error_a', 'uncompact', ([sib[0], sib[1]], 9), False),
        ('uncompact:after_error_b', 'uncompact', ([res0[2]], 2), False),
        ('cell_to_parent', 'cell_to_parent', (c7, 1), False),
        ('get_res0_cells', 'get_res0_cells', (), True),
        ('get_resolution', 'get_resolution', (c7,), False),
        ('get_num_cells', 'get_num_cells', (7,), False),
        ('cell_area', 'cell_area', (7,), False),
        ('u64_to_hex', 'u64_to_hex', (c7,), False),
        ('hex_to_u64', 'hex_to_u64', ('%x' % c7,), False),
        ('cell_to_boundary:auto', 'cell_to_boundary', (a_parent(c7),), True),
        ('cell_to_boundary:open', 'cell_to_boundary', (c7, {'closed_ring': False, 'segments': 3}), True),
        ('cell_to_boundary:default_r7', 'cell_to_boundary', (c7,), False),
        ('cell_to_boundary:empty_options_r9', 'cell_to_boundary', (rm_child(c7), {}), False),
        ('cell_to_boundary:only_closed_r7', 'cell_to_boundary', (c7, {'closed_ring': False}), False),
        ('cell_to_lonlat:world', 'cell_to_lonlat', (0,), False),
        ('cell_to_boundary:world', 'cell_to_boundary', (0,), True),
        ('lonlat_to_cell:pole', 'lonlat_to_cell', ((0.0, 90.0), 8), False),
        ('lonlat_to_cell:far', 'lonlat_to_cell', ((539.0, -33.0), 6), False),
    ]


def rm_child29(c7):
    from vf import refmodel as rm
    p = rm.decode(c7)
    return rm.encode(p + (1,) * (30 - len(p)))


def rm_child(c7):
    from vf import refmodel as rm
    return rm.encode(rm.decode(c7) + (2, 1))


def a_parent(c7):
    # resolution-3 ancestor without calling the library in this process: clear digits below res 3 and set the marker (layout per refmodel)
    from vf import refmodel as rm
    return rm.encode(rm.decode(c7)[:4])


class InjectedAbort(BaseException):
    """stands for KeyboardInterrupt / MemoryError / a timeout signal arriving in the middle of a call"""


ABORT_PURE = ['hex_to_u64', 'u64_to_hex', 'cell_to_parent', 'get_resolution', 'get_num_cells', 'cell_area', 'cell_to_children:quad_a', 'compact:plain', 'uncompact:one_level']
ABORT_EVENTS = ['lonlat_to_cell:f03t2edge', 'cell_to_boundary:f03t2edge', 'cell_to_lonlat:f03t2edge', 'cell_to_boundary:f07t5in', 'low:cell_to_boundary:seg1:r1:f00t1',
                'low:cell_to_boundary:auto:r0:f11t6', 'compact:sib', 'uncompact', 'cell_to_children:world', 'get_res0_cells', 'cell_to_boundary:default_r7']


def abort_explore(task):
    """fault enumeration: abort the call `ev` at every line event inside a5 (first/last occurrences of each site in quick), then make the
    probe calls single-threaded in the same process: an aborted call is part of the history and must leave nothing behind"""
    from vf import sched
    import a5
    ev, probes, expected, cap, only = task
    prefix = os.path.dirname(os.path.realpath(a5.__file__)) + os.sep
    ex = sched.Explorer(prefix, 'line')
    ex.abort_exc = InjectedAbort
    want = {p[0]: expected[p[0]] for p in probes}

    def probe_verdict():
        # evaluated in the forked child: only the names of deviating probes travel back (full values would be ~50 kB per abort point)
        return [p[0] for p in probes if history.run_event(p)[0] != want[p[0]]]
    ex.after = probe_verdict
    if cap is not None:
        ex.occ_total = ex.count_sites(lambda: history.run_event(ev))
        ex.occ_cap = cap
    import gc
    gc.collect()
    gc.freeze()
    res = ex.explore(lambda: history.run_event(ev), lambda: None, only)
    out = []
    for kk, site, va, vb in res:
        if va in ('blocked', 'crash'):
            out.append((kk, site, va))
            continue
        probe = vb[2] if isinstance(vb, tuple) and len(vb) == 3 and vb[0] == 'with-probe' else None
        if probe is None or probe[0] != 'ok':
            out.append((kk, site, 'probe calls raised: %s' % (probe[1] if probe else 'no probe result')))
            continue
        bad = [x for x in probe[1][1:]] if isinstance(probe[1], tuple) else []
        out.append((kk, site, bad or None))
    return ev[0], out, ex.skipped


def fresh_value(ev):
    """the same single call in a genuinely fresh interpreter"""
    code = ('import sys,pickle,base64;sys.path.insert(0,%r);sys.path.insert(0,%r);'
            'from vf import history;ev=pickle.loads(base64.b64decode(sys.argv[1]));'
            'r,p=history.run_event(ev);sys.stdout.write(base64.b64encode(pickle.dumps((r,p))).decode())') % (common.REPO, common.VERIF)
    env = dict(os.environ, PYTHONHASHSEED='0')
    out = subprocess.run([sys.executable, '-c', code, base64.b64encode(pickle.dumps(ev)).decode()], capture_output=True, text=True, env=env, timeout=1800)
    if out.returncode != 0:
        raise RuntimeError('fresh interpreter failed: ' + out.stderr[-2000:])
    return pickle.loads(base64.b64decode(out.stdout))


def _fresh_task(ev):
    return ev[0], fresh_value(ev)


def run(tier, t0):
    acc = common.Acc()

    def many(func, args, nproc=None):
        out = [None] * len(args)
        for i, res in common.fresh_map(func, args, nproc, timeout=3600):
            if isinstance(res, Exception):
                raise res
            out[i] = res
        return out

    import time as _t
    import gc
    gc.disable()          # the parent only shuffles large result tuples around; cyclic GC passes over them are pure overhead
    _tp = [_t.time()]

    def phase(name):
        acc.notes.append('phase %s: %.1fs' % (name, _t.time() - _tp[0]))
        if os.environ.get('VERIF_PROGRESS'):
            print('[C17] phase %s: %.1fs' % (name, _t.time() - _tp[0]), file=sys.stderr, flush=True)
        _tp[0] = _t.time()

    try:
        k = many(prepare, [tier])[0]
    except Exception as e:
        if not common.raised_inside_library(e):
            raise
        # the menu constants are derived with the library itself (public calls on all 120 face triangles in one process): if that already
        # fails, a public call failed on a legitimate input after an ordinary history of other public calls
        acc.violation(f'c17:prepare:{common.library_error_line(e)[:60]}', f'a public call raised {common.library_error_line(e)} while the event menu was being derived (cells and points on all 12 faces x 10 triangles, one process)',
                      {'history': [], 'event': '<prepare>', 'prepare': True})
        return common.finish(PID, LEVEL, tier, acc, t0, 'event menu construction failed; nothing else was explored', [], exhaustive=False)
    full = build_menu(k)
    by_name = {ev[0]: ev for ev in full}
    phase('prepare')
    # ---- level 1: every event from the pristine state (these values are the oracle)
    h0, lvl1, _ = many(history.expand, [([], full, None)])[0]
    expected = {}
    state_of = {}
    seen = {h0: []}
    for i, res, prob, h in lvl1:
        name = full[i][0]
        expected[name] = res
        acc.n['transitions'] += 1
        case = {'history': [], 'event': name}
        if res[0] != 'ok' and not name.startswith('error:'):
            acc.violation(f'c17:raises:{name}', f'{name} raises from the pristine state: {res[1]}', case)
        elif prob:
            acc.violation(f'c17:[]->{name}:{prob[:40]}', f'{name} from the pristine state: {prob}', case)
        else:
            acc.n['validated'] += 1
        if h not in seen:
            seen[h] = [name]
    phase('level1')
    # validate the oracle itself against genuinely fresh interpreters
    picks = [full[(i * 97 + common.seed() * 13) % len(full)] for i in range(12)] + pure_menu(k)[:4]
    for name, (res, prob) in many(_fresh_task, picks):
        acc.n['fresh_interpreter_comparisons'] += 1
        if res != expected[name]:
            acc.violation(f'c17:fresh:{name}', f'{name}: a fresh interpreter returns a different value than the pristine forked process', {'history': [], 'event': name, 'fresh': True})

    phase('fresh')

    def record(hist_names, menu, result, label=None):
        hh, outs, problems = result
        for evname, prob in problems:
            acc.violation(f'c17:{label or "+".join(hist_names)}|replay:{evname}:{prob[:40]}', f'while replaying {label or hist_names}: {evname}: {prob}', {'history': hist_names, 'event': evname})
        new = []
        for i, res, prob, h in outs:
            name = menu[i][0]
            acc.n['transitions'] += 1
            case = {'history': hist_names, 'event': name}
            tag = label or '+'.join(hist_names)
            if res != expected[name]:
                what = 'raised ' + res[1] if res[0] == 'exc' else 'returned a value different from the pristine single call'
                acc.violation(f'c17:{tag}->{name}', f'after {hist_names if len(hist_names) <= 3 else str(len(hist_names)) + " calls"}: {name} {what}', case)
            elif prob:
                acc.violation(f'c17:{tag}->{name}:{prob[:40]}', f'after {len(hist_names)} calls: {name}: {prob}', case)
            else:
                acc.n['validated'] += 1
            if h is not None and h not in seen:
                seen[h] = hist_names + [name]
                new.append(hist_names + [name])
        return new

    # ---- saturation histories: whole menu in several orders, then every event again from the saturated state
    names = [ev[0] for ev in full]
    orders = {
        'sorted': sorted(names),
        'reversed': sorted(names, reverse=True),
        'by_kind_then_face_desc': sorted(names, key=lambda n: (n.split(':')[0], tuple(-ord(c) for c in n))),
        'interleaved': [n for pair in zip(sorted(names)[::2], sorted(names, reverse=True)[::2]) for n in pair],
    }
    if tier == 'quick':
        orders = {kk: orders[kk] for kk in ('sorted', 'interleaved')}
    sat_tasks = [([by_name[n] for n in order], full, expected) for order in orders.values()]
    for (oname, order), res in zip(orders.items(), many(history.expand, sat_tasks)):
        record(list(order), full, res, label=f'<saturation:{oname}>')
        acc.n['saturation_events'] += len(order) + len(full)
    phase('saturation')
    # ---- BFS depth 2 (and 3 on a sub-menu) with state-hash deduplication
    if tier == 'quick':
        menu2 = build_menu(k, faces={0, 11}, tris={0, 9})
    else:
        menu2 = full
    sub = [ev for ev in menu2 if ev[0].split(':')[0] in ('lonlat_to_cell', 'cell_to_boundary')
           and any(t in ev[0] for t in ('f00t0', 'f00t9', 'f01t0', 'f01t9', 'f11t0', 'f11t9', 'f06t4'))]
    sub = sub[:16 if tier == 'quick' else 40] + pure_menu(k)[:3]
    sub += [ev for ev in menu2 if ev[0].startswith('cell_to_children:quad') or ev[0].startswith('error:') or ev[0].startswith('uncompact') or ev[0].startswith('cell_to_boundary:default') or ev[0].startswith('cell_to_boundary:empty') or ev[0].startswith('cell_to_boundary:only')]
    sub += [ev for ev in menu2 if ev[0].startswith('low:') and 'f00t1' in ev[0]]
    subnames = {ev[0] for ev in sub}
    lvl1_hist = [[n] for n in sorted({v[0] for v in seen.values() if len(v) == 1})]
    in_menu2 = {ev[0] for ev in menu2}
    # successor states only need an identity where they can be extended (histories inside the depth-3 sub-menu) - hashing is the expensive part
    tasks = [([by_name[h[0]]], menu2, expected, (subnames if h[0] in subnames else set()) if tier == 'quick' else None) for h in lvl1_hist if h[0] in in_menu2]
    frontier2 = []
    for i, res in common.fresh_map(history.expand, tasks, timeout=3600):        # streamed: results are large, never hold them all
        if isinstance(res, Exception):
            raise res
        frontier2 += record([tasks[i][0][0][0]], menu2, res)
    frontier2.sort()
    acc.strata['depth2_histories_expanded'] = len(tasks)
    phase('depth2')
    tasks3 = [([by_name[n] for n in h], sub, expected) for h in frontier2 if all(n in subnames for n in h)]
    for i, res in common.fresh_map(history.expand, tasks3, timeout=3600):
        if isinstance(res, Exception):
            raise res
        record([e[0] for e in tasks3[i][0]], sub, res)
    acc.strata['depth3_histories_expanded'] = len(tasks3)
    phase('depth3')
    # ---- tie clusters: all histories of length 2 inside each cluster (boundary points x centres of the surrounding cells)
    cl_tasks = []
    cl_menus = []
    deep_clusters = []
    for cl in k['clusters']:
        tag, r, bpts, centres = cl[:4]
        depth = cl[4] if len(cl) > 4 else 2
        if depth == 3:
            deep_clusters.append(len(cl_menus))
        if tier == 'quick' and r not in (3, 8, 9, 29) and not (len(cl) > 6 and cl[6] == 'edge'):
            continue
        evs = [(f'tie:{tag}:b{i}', 'lonlat_to_cell', (bp, r), False) for i, bp in enumerate(bpts)]
        evs += [(f'tie:{tag}:c{i}', 'lonlat_to_cell', (cp, r), False) for i, cp in enumerate(centres)]
        for i, cc in enumerate(cl[5] if len(cl) > 5 else []):
            evs.append((f'tie:{tag}:ring{i}', 'cell_to_boundary', (cc, {'segments': 2}), False))
            if i == 0:
                evs.append((f'tie:{tag}:centre{i}', 'cell_to_lonlat', (cc,), False))
        cl_menus.append(evs)
    first = many(history.expand, [([], evs, None) for evs in cl_menus])
    for evs, (hh, outs, _) in zip(cl_menus, first):
        for i, res, prob, h in outs:
            expected[evs[i][0]] = res
            acc.n['transitions'] += 1
            if res[0] != 'ok':
                acc.violation(f'c17:raises:{evs[i][0]}', f'{evs[i][0]} raises from the pristine state: {res[1]}', {'history': [], 'event': evs[i][0], 'cluster': evs})
            else:
                acc.n['validated'] += 1
        for e in evs:
            cl_tasks.append(([e], evs, expected))
    for (hist, evs, _), res in zip(cl_tasks, many(history.expand, cl_tasks)):
        hh, outs, problems = res
        for i, r2, prob, h in outs:
            acc.n['transitions'] += 1
            name = evs[i][0]
            if r2 != expected[name] or prob:
                acc.violation(f'c17:{hist[0][0]}->{name}', f'after {hist[0][0]} {hist[0][2]}: {name} {evs[i][2]} ' + (prob or 'returned a value different from the pristine single call'),
                              {'history': [hist[0][0]], 'event': name, 'cluster': evs})
            else:
                acc.n['validated'] += 1
            if h is not None and h not in seen:
                seen[h] = [hist[0][0], name]
    # clusters marked depth 3 (polar): all histories of length 3
    cl3 = []
    for ci in deep_clusters:
        if ci < len(cl_menus):
            evs = cl_menus[ci]
            for e1 in evs:
                for e2 in evs:
                    cl3.append(([e1, e2], evs, expected))
    for (hist, evs, _), res in zip(cl3, many(history.expand, cl3)):
        hh, outs, problems = res
        for i, r2, prob, h in outs:
            acc.n['transitions'] += 1
            name = evs[i][0]
            if r2 != expected[name] or prob:
                acc.violation(f'c17:{hist[0][0]}+{hist[1][0]}->{name}', f'after {hist[0][0]} and {hist[1][0]}: {name} {evs[i][2]} ' + (prob or 'returned a value different from the pristine single call'),
                              {'history': [hist[0][0], hist[1][0]], 'event': name, 'cluster': evs})
            else:
                acc.n['validated'] += 1
    acc.strata['polar_cluster_depth3_histories'] = len(cl3)
    acc.strata['tie_clusters'] = len(cl_menus)
    acc.strata['tie_cluster_histories'] = len(cl_tasks)
    phase('clusters')
    # ---- fault enumeration: every abort point of selected calls, then probe calls
    ab_events = [by_name[n] for n in ABORT_EVENTS + ABORT_PURE if n in by_name]
    probes = ab_events[:8] + [by_name[n] for n in ['lonlat_to_cell:f03t1in', 'cell_to_boundary:f03t3in', 'cell_to_children'] + ABORT_PURE if n in by_name]
    cap = (3, 1) if tier == 'quick' else (40, 10)      # thorough: first 40 / last 10 occurrences of every line site (the default res-0 ring alone has 128 000 line events)
    if tier == 'quick':
        ab_events = [e for e in ab_events if e[0] not in ('cell_to_boundary:f07t5in', 'low:cell_to_boundary:auto:r0:f11t6', 'cell_to_boundary:default_r7', 'compact:plain')]
    ab_tasks = [(ev, probes, {p[0]: expected[p[0]] for p in probes}, cap, (3, i)) for ev in ab_events for i in range(3 if ev[0] not in ABORT_PURE else 1)]
    ab_tasks = [t if t[0][0] not in ABORT_PURE else (t[0], t[1], t[2], t[3], None) for t in ab_tasks]
    try:
        ab_results = many(abort_explore, ab_tasks)
    except RuntimeError as e:
        # a worker of this phase died (out of memory, killed).  With violations already in hand from the earlier phases the verdict is
        # theirs and is reported; without any it stays a machinery error (exit 3), never a silent pass
        if not acc.violations:
            raise
        acc.notes.append(f'fault enumeration not completed ({e}); the violations of the earlier phases are reported')
        ab_results = []
    for name, out, skipped in ab_results:
        acc.n['abort_points_skipped_by_occurrence_cap'] += skipped
        for kk, site, bad in out:
            acc.n['transitions'] += 1
            acc.n['abort_points'] += 1
            if bad is None:
                acc.n['validated'] += 1
            elif bad in ('blocked',):
                acc.n['blocked'] += 1
            else:
                what = f'later calls {bad} return values different from the pristine single calls' if isinstance(bad, list) else str(bad)
                acc.violation(f'c17:abort:{name}@{site[0]}:{site[1]}:{site[2]}', f'{name} aborted (exception injected) at {site[0]}:{site[2]} ({site[1]}): {what}',
                              {'history': ['<abort>' + name], 'event': name, 'abort': {'event': name, 'k': kk, 'site': list(site)}})
    phase('abort_points')
    acc.n['states'] = len(seen)
    acc.n['nontrivial'] = len(seen)
    acc.n['menu_events'] = len(full)
    acc.sample({'history': ['lonlat_to_cell:f00t9edge', 'cell_to_boundary:f01t0in'], 'then': 'every event of the menu, each in its own fork; result compared bit-for-bit with the pristine single call'})
    acc.sample({'event': list(by_name['cell_to_boundary:f06t4in'][:3])})
    acc.sample({'pristine_state_hash': h0, 'distinct_states': len(seen)})
    rule = (f'event menu of {len(full)} public calls (12 faces x 10 triangles x inside/near-edge x lonlat_to_cell, cell_to_boundary, cell_to_lonlat + 18 other calls, mutate-the-result variants); '
            f'all histories of length 1 over the menu, length 2 over {len(menu2)} events, length 3 over {len(sub)} events (extended only from histories that reached a new library state), '
            'and 4 (quick: 2) saturation histories (whole menu in different orders, then every event again); tie clusters (ring vertices of a cell x centres of the surrounding cells x ring / centre calls of the cells of the cluster, all histories of length 2; polar clusters length 3; face-edge clusters: 24 points at 1e-9 .. 0.2 rad on both sides of a dodecahedron edge x resolutions 0/20 (thorough: 30 edges x 0/1/8/20/29), all histories of length 2); fault enumeration: 20 calls aborted by an injected exception at every line event '
            '(quick: first 3 / last 1 occurrences per site, 16 calls; thorough: first 40 / last 10) followed by 16 probe calls; a state is the canonical hash of everything reachable from the a5 module globals')
    return common.finish(PID, LEVEL, tier, acc, t0, rule, [
        'the oracle value of an event is the value of the single call in a process forked from a pristine import; 16 of them per run are compared with genuinely fresh interpreters',
        'state identity = sha1 of a generic canonical walk over all a5 module globals and reachable instance dicts (dicts sorted, floats by hex); histories reaching a seen state are not extended',
        'history lengths beyond 3 are covered only by the 4 saturation histories',
    ], extra={'depth2_menu': len(menu2), 'depth3_menu': len(sub)}, exhaustive=True)


def replay(case):
    def many(func, args):
        out = [None] * len(args)
        for i, res in common.fresh_map(func, args):
            if isinstance(res, Exception):
                raise res
            out[i] = res
        return out
    if case.get('prepare'):
        try:
            many(prepare, ['quick'])
            many(prepare, ['thorough'])
        except Exception as e:
            if not common.raised_inside_library(e):
                raise
            return [('c17:prepare', common.library_error_line(e))]
        return []
    if 'abort' in case:
        k = many(prepare, ['thorough'])[0]
        full = build_menu(k)
        by_name = {ev[0]: ev for ev in full}
        _, lvl1, _ = many(history.expand, [([], full, None)])[0]
        expected = {full[i][0]: res for i, res, prob, h in lvl1}
        ab_events = [by_name[n] for n in ABORT_EVENTS if n in by_name]
        probes = ab_events + [by_name[n] for n in ('lonlat_to_cell:f03t1in', 'cell_to_boundary:f03t3in', 'cell_to_lonlat:f00t0in', 'cell_to_children', 'compact:res0') if n in by_name]
        name, out, _ = many(abort_explore, [(by_name[case['abort']['event']], probes, {p[0]: expected[p[0]] for p in probes}, None, None)])[0]
        return [(f'c17:abort:{name}@{site[0]}:{site[2]}', str(bad)) for kk, site, bad in out if bad and kk == case['abort']['k']]
    if 'cluster' in case:
        evs = [(e[0], e[1], (tuple(e[2][0]), e[2][1]), e[3]) for e in case['cluster']]
        byn = {e[0]: e for e in evs}
        ev = byn[case['event']]
        _, lvl1, _ = many(history.expand, [([], [ev], None)])[0]
        _, outs, _ = many(history.expand, [([byn[n] for n in case['history']], [ev], None)])[0]
        return [('c17:' + case['event'], 'value differs from the pristine single call')] if outs[0][1] != lvl1[0][1] else []
    k = many(prepare, ['thorough'])[0]
    full = build_menu(k)
    by_name = {ev[0]: ev for ev in full}
    ev = by_name[case['event']]
    _, lvl1, _ = many(history.expand, [([], [ev], None)])[0]
    exp = lvl1[0][1]
    hist = [by_name[n] for n in case['history'] if n in by_name]
    if case.get('fresh'):
        res, prob = fresh_value(ev)
        return [('c17:fresh', 'differs')] if res != exp else []
    _, outs, problems = many(history.expand, [(hist, [ev], None)])[0]
    out = [(f'c17:replay:{e}', p) for e, p in problems]
    for i, res, prob, h in outs:
        if res != exp:
            out.append((f'c17:{case["event"]}', 'value differs from the pristine single call'))
        elif prob:
            out.append((f'c17:{case["event"]}', prob))
    return out
