"""E4 - schedule explorer: every one-preemption schedule "A is preempted at point k, B runs to completion, A resumes".

A runs under a sys.monitoring tool.  At every LINE (or INSTRUCTION) event raised inside the package under test the
process forks; the child switches monitoring off, runs B to completion at exactly that point of A, lets A finish
and reports both values through a pipe; the parent carries on to the next point.  fork() snapshots the complete
interpreter state, so no knowledge of the library's globals is needed and prefixes are never re-executed.
"""
import os
import sys
import time
import pickle
import select
import signal
import threading

mon = sys.monitoring
TOOL = 4


def canon(v):
    """bit-exact, order-preserving canonical form of a returned value"""
    if isinstance(v, float):
        return ('f', v.hex())
    if isinstance(v, bool) or v is None or isinstance(v, (int, str)):
        return v
    if isinstance(v, (list, tuple)):
        return (type(v).__name__,) + tuple(canon(x) for x in v)
    if isinstance(v, dict):
        return ('dict',) + tuple((canon(k), canon(x)) for k, x in v.items())
    return ('repr', repr(v))


def call_value(fn):
    try:
        return ('ok', canon(fn()))
    except BaseException as e:  # noqa
        return ('exc', f'{type(e).__name__}: {e}')


class Explorer:
    def __init__(self, pkg_prefix, granularity='line', timeout=10.0, outstanding=3):
        self.prefix = pkg_prefix
        self.event = mon.events.LINE if granularity == 'line' else mon.events.INSTRUCTION
        self.timeout = timeout
        self.outstanding = outstanding
        self.in_child = False
        self.results = []          # (k, site, a_value, b_value) or (k, site, 'blocked'/'crash', None)
        self.pending = []
        self.k = 0
        self.only = None
        self.after = None          # optional probe run in the child after A has finished (later single-threaded calls)
        self.counting = None
        self.abort_exc = None      # fault injection: instead of running B, raise this exception inside A at the preemption point
        self.occ_cap = None        # (first n, last m) dynamic occurrences of every site are explored; None = all
        self.occ_seen = {}
        self.occ_total = {}
        self.skipped = 0
        self.b_in_thread = True    # B runs in a real second thread of the child (own thread-local storage, own thread identity) while A stays suspended

    def _run_b(self):
        if not self.b_in_thread:
            return call_value(self.call_b)
        box = []
        t = threading.Thread(target=lambda: box.append(call_value(self.call_b)))
        t.start()
        t.join()
        return box[0] if box else ('exc', 'the second thread ended without a value')

    def count_sites(self, call_a):
        """dynamic occurrence count of every line site of A, measured in a forked child so that this process keeps its (cold) state"""
        r, w = os.pipe()
        pid = os.fork()
        if pid == 0:
            try:
                os.close(r)
                self.counting = {}
                mon.use_tool_id(TOOL, 'verif-sched')
                mon.register_callback(TOOL, self.event, self._cb)
                mon.set_events(TOOL, self.event)
                call_value(call_a)
                mon.set_events(TOOL, 0)
                data = pickle.dumps(self.counting)
                view = memoryview(data)
                while view:
                    n = os.write(w, view[:1 << 16])
                    view = view[n:]
            finally:
                os._exit(0)
        os.close(w)
        buf = []
        while True:
            ch = os.read(r, 1 << 16)
            if not ch:
                break
            buf.append(ch)
        os.close(r)
        os.waitpid(pid, 0)
        return pickle.loads(b''.join(buf))

    # ---- monitoring callback -------------------------------------------------------------------------------
    def _cb(self, code, where):
        if not code.co_filename.startswith(self.prefix):
            return mon.DISABLE
        if self.in_child:
            return None
        self.k += 1
        k = self.k
        if self.counting is not None:
            self.counting[(code.co_filename, code.co_name, where)] = self.counting.get((code.co_filename, code.co_name, where), 0) + 1
            return None
        if self.occ_cap is not None:
            key = (code.co_filename, code.co_name, where)
            n = self.occ_seen[key] = self.occ_seen.get(key, 0) + 1
            tot = self.occ_total.get(key, n)
            if not (n <= self.occ_cap[0] or n > tot - self.occ_cap[1]):
                self.skipped += 1
                return None
        if self.only is not None:
            if isinstance(self.only, tuple):
                if k % self.only[0] != self.only[1]:      # this process explores one residue class of the preemption points
                    return None
            elif k not in self.only:
                return None
        site = (code.co_filename[len(self.prefix):], code.co_name, where)
        r, w = os.pipe()
        pid = os.fork()
        if pid == 0:
            os.close(r)
            self.in_child = True
            mon.set_events(TOOL, 0)
            self.child_w = w
            if self.abort_exc is not None:
                self.child_b = ('aborted', site)
                raise self.abort_exc(f'injected at {site[0]}:{site[2]}')      # propagates into A at exactly this point
            self.child_b = self._run_b()
            return None
        os.close(w)
        self.pending.append((pid, r, k, site, time.time()))
        while len(self.pending) >= self.outstanding:
            self._reap_one()
        return None

    def _reap_one(self):
        pid, r, k, site, t0 = self.pending.pop(0)
        data = b''
        status = 'ok'
        while True:
            left = self.timeout - (time.time() - t0)
            if left <= 0:
                status = 'blocked'
                break
            rd, _, _ = select.select([r], [], [], left)
            if not rd:
                status = 'blocked'
                break
            chunk = os.read(r, 1 << 16)
            if not chunk:
                break
            data += chunk
        os.close(r)
        if status == 'blocked':
            try:
                os.kill(pid, signal.SIGKILL)
            except ProcessLookupError:
                pass
        os.waitpid(pid, 0)
        if status == 'blocked':
            self.results.append((k, site, 'blocked', None))
            return
        try:
            va, vb = pickle.loads(data)
        except Exception:
            self.results.append((k, site, 'crash', None))
            return
        self.results.append((k, site, va, vb))

    # ---- driver ------------------------------------------------------------------------------------------
    def explore(self, call_a, call_b, only=None):
        """returns list of (k, site, A's value, B's value); runs in the calling process (which keeps A's effects)"""
        self.call_b = call_b
        self.results = []
        self.pending = []
        self.k = 0
        self.only = only if isinstance(only, tuple) or only is None else set(only)
        mon.use_tool_id(TOOL, 'verif-sched')
        mon.register_callback(TOOL, self.event, self._cb)
        mon.set_events(TOOL, self.event)
        try:
            va = call_value(call_a)
        finally:
            if not self.in_child:
                mon.set_events(TOOL, 0)
                mon.register_callback(TOOL, self.event, None)
                mon.free_tool_id(TOOL)
        if self.in_child:
            try:
                vb = self.child_b
                if self.after is not None:
                    vb = ('with-probe', vb, call_value(self.after))
                data = pickle.dumps((va, vb))
                view = memoryview(data)
                while view:
                    n = os.write(self.child_w, view[:1 << 16])
                    view = view[n:]
            finally:
                os._exit(0)
        while self.pending:
            self._reap_one()
        self.solo_a = va
        return self.results


class Explorer2(Explorer):
    """preemption bound 2: A runs to its point i, B runs in a second thread to ITS point j and is suspended there, A resumes and runs
    to completion, then B resumes and completes  (A | B | A | B).  Every (i, j) is one forked execution: the fork is taken in A's
    thread at point i, the grandchild starts B's thread, B's own line events are counted by the same monitor and B parks on a
    semaphore at its j-th event.  Exactly one of the two threads is runnable at any time, so the schedule is fully determined.

    For every i a forked 'sequence child' first runs B to completion at that point (this is the one-preemption schedule) and sends back
    the sequence of B's line sites in the state A has produced so far; the j to explore are chosen from that sequence (all of them, or the
    first n / last m occurrences of every site)."""

    def __init__(self, pkg_prefix, timeout=20.0, outstanding=4, b_cap=None):
        super().__init__(pkg_prefix, 'line', timeout, outstanding)
        self.b_cap = b_cap
        self.b_ident = None
        self.bk = 0
        self.b_target = None
        self.b_site = None
        self.recording = None
        self.pairs_skipped_by_b_cap = 0

    def _b_sequence(self):
        """in a forked child: run B to completion in a second thread at the current point of A, record the sites of its line events"""
        r, w = os.pipe()
        pid = os.fork()
        if pid == 0:
            try:
                os.close(r)
                self.in_child = True
                self.recording = []
                self.b_target = -1
                box = []
                t = threading.Thread(target=lambda: (setattr(self, 'b_ident', threading.get_ident()), box.append(call_value(self.call_b))))
                t.start()
                t.join()
                data = pickle.dumps(self.recording)
                view = memoryview(data)
                while view:
                    n = os.write(w, view[:1 << 16])
                    view = view[n:]
            finally:
                os._exit(0)
        os.close(w)
        buf = []
        t0 = time.time()
        while True:
            rd, _, _ = select.select([r], [], [], max(0.0, self.timeout - (time.time() - t0)))
            if not rd:
                try:
                    os.kill(pid, signal.SIGKILL)
                except ProcessLookupError:
                    pass
                buf = None
                break
            ch = os.read(r, 1 << 16)
            if not ch:
                break
            buf.append(ch)
        os.close(r)
        os.waitpid(pid, 0)
        if buf is None:
            return None
        try:
            return pickle.loads(b''.join(buf))
        except Exception:
            return None

    def _choose_j(self, seq):
        if self.b_cap is None:
            return list(range(1, len(seq) + 1))
        if self.b_cap == 'func':           # B is parked at the first line event of every distinct function it runs (call boundaries)
            seen_f = set()
            out = []
            for j, s in enumerate(seq, 1):
                key = (s[0], s[1], s[3])          # (file, function, calling function): the first line of every function, once per distinct caller
                if key in seen_f:
                    self.pairs_skipped_by_b_cap += 1
                    continue
                seen_f.add(key)
                out.append(j)
            return out
        tot = {}
        for s in seq:
            tot[s] = tot.get(s, 0) + 1
        seen = {}
        out = []
        for j, s in enumerate(seq, 1):
            n = seen[s] = seen.get(s, 0) + 1
            if n <= self.b_cap[0] or n > tot[s] - self.b_cap[1]:
                out.append(j)
            else:
                self.pairs_skipped_by_b_cap += 1
        return out

    def _cb(self, code, where):
        if not code.co_filename.startswith(self.prefix):
            return mon.DISABLE
        if self.in_child:
            if threading.get_ident() != self.b_ident:
                return None                      # A's own events after it has resumed
            self.bk += 1
            if self.recording is not None:
                caller = ''
                if self.b_cap == 'func':
                    try:
                        fb = sys._getframe(1).f_back
                        caller = fb.f_code.co_name if fb is not None else ''
                    except Exception:
                        caller = ''
                self.recording.append((code.co_filename[len(self.prefix):], code.co_name, where, caller))
            elif self.bk == self.b_target:
                self.b_site = (code.co_filename[len(self.prefix):], code.co_name, where)
                self.b_parked.set()              # baton to A ...
                self.b_go.acquire()              # ... and wait here until A has completed
            return None
        self.k += 1
        k = self.k
        if self.counting is not None:
            self.counting[(code.co_filename, code.co_name, where)] = self.counting.get((code.co_filename, code.co_name, where), 0) + 1
            return None
        if self.occ_cap is not None:
            key = (code.co_filename, code.co_name, where)
            n = self.occ_seen[key] = self.occ_seen.get(key, 0) + 1
            tot = self.occ_total.get(key, n)
            if not (n <= self.occ_cap[0] or n > tot - self.occ_cap[1]):
                self.skipped += 1
                return None
        if self.only is not None:
            if isinstance(self.only, tuple):
                if k % self.only[0] != self.only[1]:
                    return None
            elif k not in self.only:
                return None
        site = (code.co_filename[len(self.prefix):], code.co_name, where)
        seq = self._b_sequence()
        if seq is None:
            self.results.append((k, site, 0, None, 'blocked', None))
            return None
        self.b_lengths.append(len(seq))
        js = self._choose_j(seq)
        if self.only_j is not None:
            js = [j for j in js if j in self.only_j]
        for j in js:
            r, w = os.pipe()
            pid = os.fork()
            if pid == 0:
                os.close(r)
                self.in_child = True
                self.child_w = w
                self.b_target = j
                self.bk = 0
                self.b_parked = threading.Event()
                self.b_go = threading.Semaphore(0)
                self.b_box = []

                def body():
                    self.b_ident = threading.get_ident()
                    try:
                        self.b_box.append(call_value(self.call_b))
                    finally:
                        self.b_parked.set()      # B ended before reaching j (cannot happen for a deterministic B): do not leave A waiting
                self.b_thread = threading.Thread(target=body)
                self.b_thread.start()
                self.b_parked.wait()
                return None                      # A resumes from exactly this point, B is parked at its j-th line event
            os.close(w)
            self.pending.append((pid, r, (k, j, seq[j - 1][:3]), site, time.time()))
            while len(self.pending) >= self.outstanding:
                self._reap_one()
        return None

    def _reap_one(self):
        n0 = len(self.results)
        super()._reap_one()
        for idx in range(n0, len(self.results)):
            (k, j, bsite), site, va, vb = self.results[idx]
            self.results[idx] = (k, site, j, bsite, va, vb)

    def explore(self, call_a, call_b, only=None, only_j=None):
        """returns list of (i, site of A, j, site of B, A's value, B's value)"""
        self.call_b = call_b
        self.results = []
        self.pending = []
        self.b_lengths = []
        self.k = 0
        self.only = only if isinstance(only, tuple) or only is None else set(only)
        self.only_j = set(only_j) if only_j is not None else None
        mon.use_tool_id(TOOL, 'verif-sched')
        mon.register_callback(TOOL, self.event, self._cb)
        mon.set_events(TOOL, self.event)
        try:
            va = call_value(call_a)
        finally:
            if not self.in_child:
                mon.set_events(TOOL, 0)
                mon.register_callback(TOOL, self.event, None)
                mon.free_tool_id(TOOL)
        if self.in_child:
            try:
                parked_at_j = self.bk == self.b_target and not self.b_box
                self.b_go.release()              # A is complete: B resumes and runs to its end
                self.b_thread.join()
                mon.set_events(TOOL, 0)
                vb = self.b_box[0] if self.b_box else ('exc', 'the second thread ended without a value')
                if not parked_at_j:
                    vb = ('not-parked', vb)
                if self.after is not None:
                    vb = ('with-probe', vb, call_value(self.after))
                data = pickle.dumps((va, vb))
                view = memoryview(data)
                while view:
                    n = os.write(self.child_w, view[:1 << 16])
                    view = view[n:]
            finally:
                os._exit(0)
        while self.pending:
            self._reap_one()
        self.solo_a = va
        return self.results
