#!/bin/bash
# usage: tools/run_all.sh [quick|thorough] [ids...]   -- runs the registered checks one after another, prints one summary line each
cd "$(dirname "$0")/.."
tier=${1:-quick}; shift
ids=${@:-C01 C02 C03 C04 C05 C06 C07 C08 C09 C10 C11 C12 C13 C14 C15 C16 C17 C18 C19 C20}
rc=0
for c in $ids; do
  out=$(/venv/bin/python run_check.py $c --tier $tier 2>&1); r=$?
  echo "$out" | grep -E "^\[$c\]|VIOLATION|Traceback|Error" | head -5
  echo "   rc=$r"
  [ $r -ne 0 ] && rc=1
done
exit $rc
