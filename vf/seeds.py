"""Deterministic seed families used to reach deep levels of the hierarchy (start from non-initial states).

G1: digit patterns.  For k quaternary digits (most significant first) the family contains
    0^k, 1^k, 2^k, 3^k, 0 3^(k-1), 1 0^(k-1), 3 0^(k-1), 2 3^(k-1), (01)*, (12)*, (23)*, (30)*, (10)*, (32)*,
    one non-zero digit (1,2,3) at each position over a background of 0 and of 3,
    and (level 'pairs') two digits at each pair of positions, all 9 non-zero value pairs, background 0.
Justification: encode/decode/parent/children are shift-mask-add in S and the Hilbert digit rewriting looks at pairs of
adjacent digits and the running flip parity, so a defect is local to a position, a pair of positions, or a parity of
the prefix: every position, every pair and both parities are present.
"""
import itertools


def digits_to_s(digits):
    s = 0
    for d in digits:
        s = s * 4 + d
    return s


def s_to_digits(s, k):
    out = []
    for _ in range(k):
        out.append(s & 3)
        s >>= 2
    return tuple(reversed(out))


def g1_patterns(k, level='single'):
    """list of distinct digit tuples of length k (k >= 1)"""
    if k <= 0:
        return [()]
    out = []
    seen = set()

    def add(t):
        t = tuple(t)[:k]
        if len(t) == k and t not in seen:
            seen.add(t)
            out.append(t)

    for d in range(4):
        add([d] * k)
    add([0] + [3] * (k - 1))
    add([1] + [0] * (k - 1))
    add([3] + [0] * (k - 1))
    add([2] + [3] * (k - 1))
    for a, b in ((0, 1), (1, 2), (2, 3), (3, 0), (1, 0), (3, 2), (0, 2), (1, 3)):
        add(([a, b] * k)[:k])
    if level == 'basic':
        return out
    for bg in (0, 3):
        for pos in range(k):
            for d in range(4):
                if d != bg:
                    t = [bg] * k
                    t[pos] = d
                    add(t)
    if level == 'single':
        return out
    for i, j in itertools.combinations(range(k), 2):
        for a in (1, 2, 3):
            for b in (1, 2, 3):
                t = [0] * k
                t[i] = a
                t[j] = b
                add(t)
    return out


def g1_windows(k, width=3):
    """all 4^width windows at each offset over fill digits 0..3 (used by C18)"""
    out = []
    seen = set()
    for fill in range(4):
        for off in range(0, max(1, k - width + 1)):
            for w in itertools.product(range(4), repeat=min(width, k)):
                t = [fill] * k
                t[off:off + len(w)] = w
                t = tuple(t[:k])
                if t not in seen:
                    seen.add(t)
                    out.append(t)
    return out
