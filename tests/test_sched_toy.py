"""Validates the schedule explorers on a toy module whose behaviour under every schedule is known in advance:

    /venv/bin/python -m pytest -q /verif/tests/test_sched_toy.py        (or: /venv/bin/python /verif/tests/test_sched_toy.py)

plain()   - broken by one preemption;  guarded() - correct under every one-preemption schedule in both role assignments, broken
under two preemptions (A | B | A | B);  pure() - correct under every schedule.  The number of explored schedules is checked as well."""
import os
import sys

HERE = os.path.dirname(os.path.dirname(os.path.abspath(__file__)))
sys.path.insert(0, HERE)
sys.path.insert(0, os.path.join(HERE, 'tests'))
from vf import sched            # noqa: E402
from toy_pkg import toy         # noqa: E402

PREFIX = os.path.dirname(os.path.realpath(toy.__file__)) + os.sep


def one(fa, fb):
    ex = sched.Explorer(PREFIX, 'line')
    res = ex.explore(fa, fb)
    want_a, want_b = ('ok', fa()), ('ok', fb())
    return len(res), [r for r in res if r[2] != want_a or r[3] != want_b]


def two(fa, fb):
    ex = sched.Explorer2(PREFIX)
    res = ex.explore(fa, fb)
    want_a, want_b = ('ok', fa()), ('ok', fb())
    return len(res), [r for r in res if r[4] != want_a or r[5] != want_b], ex.b_lengths


def test_one_preemption_finds_plain_scratch():
    n, bad = one(lambda: toy.plain(1), lambda: toy.plain(5))
    assert n == 3 and len(bad) == 1, (n, bad)               # 3 line events; only the gap between write and read is fatal
    assert bad[0][1][2] == 9, bad                            # ... and it is the line that reads the scratch back


def test_one_preemption_is_blind_to_save_restore():
    for a, b in ((1, 5), (5, 1)):
        n, bad = one(lambda: toy.guarded(a), lambda: toy.guarded(b))
        assert n == 5 and not bad, (n, bad)


def test_two_preemptions_find_save_restore():
    n, bad, blens = two(lambda: toy.guarded(1), lambda: toy.guarded(5))
    assert blens == [5] * 5 and n == 25, (n, blens)          # every (i, j) of 5 x 5 line events is one execution
    assert bad, 'the save/restore scratch must fail under A | B | A | B'
    assert all(r[4] != ('ok', 2) or r[5] != ('ok', 10) for r in bad)


def test_pure_function_never_fails():
    n, bad = one(lambda: toy.pure(1), lambda: toy.pure(5))
    assert n == 4 and not bad
    n, bad, _ = two(lambda: toy.pure(1), lambda: toy.pure(5))
    assert n == 16 and not bad


def test_replay_is_deterministic():
    r1 = two(lambda: toy.guarded(1), lambda: toy.guarded(5))
    r2 = two(lambda: toy.guarded(1), lambda: toy.guarded(5))
    assert r1[0] == r2[0] and sorted((r[0], r[2]) for r in r1[1]) == sorted((r[0], r[2]) for r in r2[1])


if __name__ == '__main__':
    for name, fn in sorted(globals().items()):
        if name.startswith('test_'):
            fn()
            print('ok', name)
