"""C12 - boundary rings are well-formed polygons under every option combination (E1 x configurations)."""
import math
import copy
from vf import common, refmodel as rm, seeds, sphere as sp, geo

PID = 'C12'
LEVEL = 'model_checking'

_OMIT = '<omitted>'
CLOSED = (_OMIT, True, False)
SEGS = (_OMIT, None, 'auto', 1, 2, 3, 7, 16)
NORTH = (0.0, 0.0, 1.0)
SOUTH = (0.0, 0.0, -1.0)


def configs():
    out = [('options=None', None)]
    for cl in CLOSED:
        for sg in SEGS:
            o = {}
            if cl is not _OMIT:
                o['closed_ring'] = cl
            if sg is not _OMIT:
                # 'auto' read from data (a config file, JSON, argv) is an equal but not identical string: two of the three spellings use one
                o['segments'] = ''.join(['au', 'to']) if (sg == 'auto' and cl is not _OMIT) else sg
            out.append((f'closed={cl},segments={sg}', o))
    return out


CONFIGS = configs()
# the statement allows every integer >= 1: at the four finest resolutions (where neighbouring ring points are closest) also 32 and 64 per edge
FINE_CONFIGS = [('closed=<omitted>,segments=32', {'segments': 32}), ('closed=False,segments=64', {'closed_ring': False, 'segments': 64})]


def seg_intersect(p1, p2, p3, p4):
    """proper intersection of planar segments p1p2 and p3p4"""
    def orient(a, b, c):
        return (b[0] - a[0]) * (c[1] - a[1]) - (b[1] - a[1]) * (c[0] - a[0])
    d1 = orient(p3, p4, p1)
    d2 = orient(p3, p4, p2)
    d3 = orient(p1, p2, p3)
    d4 = orient(p1, p2, p4)
    return (d1 * d2 < 0) and (d3 * d4 < 0)


def simple_ccw(ring):
    """(ok, reason).  O(n) bearing test first, exact O(n^2) test before anything is reported."""
    n = len(ring)
    c = sp.centroid(ring)
    e1, e2 = sp.basis(c)
    pts = []
    for v in ring:
        g = sp.gnomonic(c, e1, e2, v)
        if g is None:
            return False, 'ring spans more than a hemisphere'
        pts.append(g)
    tot = 0.0
    mono = True
    for i in range(n):
        x1, y1 = pts[i]
        x2, y2 = pts[(i + 1) % n]
        a = math.atan2(x1 * y2 - x2 * y1, x1 * x2 + y1 * y2)
        if a <= 0:
            mono = False
        tot += a
    if mono and abs(tot - 2 * math.pi) < 1e-6:
        return True, ''
    # exact test
    area = sp.ring_area(ring, c)
    if not (area > 0):
        return False, f'ring is not counter-clockwise (signed area {area!r})'
    for i in range(n):
        for j in range(i + 2, n):
            if i == 0 and j == n - 1:
                continue
            if seg_intersect(pts[i], pts[(i + 1) % n], pts[j], pts[(j + 1) % n]):
                return False, f'edges {i} and {j} cross'
    return True, ''


def pole_exempt(ring):
    for pole in (NORTH, SOUTH):
        if min(sp.dot(pole, v) for v in ring) < 0.0:
            continue
        w, d = sp.locate(pole, ring)
        if w is None:
            continue
        if w != 0 or d < 1e-9:
            return True
    return False


def check_cell(acc, a5, c, r, label):
    acc.n['states'] += 1
    base = 3 if r == 1 else 5
    try:
        corners = [sp.vec(p) for p in a5.cell_to_boundary(c, {'segments': 1, 'closed_ring': False})]
    except Exception as e:
        acc.violation(f'c12:{label}:corners-raise', f'cell_to_boundary({c:#x}, segments=1) raised {type(e).__name__}: {e}', {'cell': hex(c), 'r': r, 'config': 'segments=1'})
        return
    auto_len = {}
    for cname, opts in (CONFIGS + FINE_CONFIGS if r >= 26 else CONFIGS):
        acc.n['transitions'] += 1
        case = {'cell': hex(c), 'r': r, 'config': cname}
        k = f'c12:{label}:{cname}'
        arg = copy.deepcopy(opts)
        try:
            ringll = a5.cell_to_boundary(c, arg) if opts is not None else a5.cell_to_boundary(c)
        except Exception as e:
            acc.violation(k + ':raises', f'cell_to_boundary({c:#x}, {opts!r}) raised {type(e).__name__}: {e}', case)
            continue
        if arg != opts:
            acc.violation(k + ':options-mutated', f'the options dict was modified: {opts!r} -> {arg!r}', case)
            continue
        closed = True if (opts is None or 'closed_ring' not in opts) else opts['closed_ring']
        sg = 'auto' if (opts is None or 'segments' not in opts or opts['segments'] in (None, 'auto')) else opts['segments']
        if not isinstance(ringll, list) or not all(isinstance(p, tuple) and len(p) == 2 for p in ringll):
            acc.violation(k + ':type', f'not a list of (lon, lat) tuples', case)
            continue
        n = len(ringll) - (1 if closed else 0)
        if sg == 'auto':
            auto_len[(closed, cname)] = n
            if n <= 0 or n % base != 0:
                acc.violation(k + ':count', f'{len(ringll)} vertices for an automatic segment count (closed={closed}); expected a positive multiple of {base}{" + 1" if closed else ""}', case)
                continue
        elif n != base * sg:
            acc.violation(k + ':count', f'{len(ringll)} vertices; expected {base}*{sg}{" + 1" if closed else ""}', case)
            continue
        if closed and ringll[0] != ringll[-1]:
            acc.violation(k + ':not-closed', f'closed ring whose first vertex {ringll[0]!r} differs from its last {ringll[-1]!r}', case)
            continue
        openll = ringll[:-1] if closed else ringll
        if len(set(openll)) != len(openll):
            acc.violation(k + ':repeated-vertex', 'the ring repeats a vertex', case)
            continue
        bad = [p for p in openll if not (math.isfinite(p[0]) and -90.0 <= p[1] <= 90.0)]
        if bad:
            acc.violation(k + ':lat-range', f'vertex {bad[0]!r} has a latitude outside [-90, 90] or a non-finite coordinate', case)
            continue
        ring = [sp.vec(p) for p in openll]
        ok, why = simple_ccw(ring)
        if not ok:
            acc.violation(k + ':not-simple-ccw', f'ring of {c:#x} with {cname}: {why}', case)
            continue
        if True:
            worst = max(d for d, i in sp.align(corners, ring))
            if worst > 1e-13:
                acc.violation(k + ':corners-moved', f'a corner of the segments=1 ring is {worst:.3g} rad away from every vertex of this ring', case)
                continue
        lons = [p[0] for p in openll]
        span = max(lons) - min(lons)
        jump = max(abs(lons[i] - lons[(i + 1) % len(lons)]) for i in range(len(lons)))
        if span >= 180.0 or jump >= 180.0:
            if not pole_exempt(ring):
                acc.violation(k + ':longitude', f'ring of {c:#x} spans {span:.3f} degrees of longitude (largest jump {jump:.3f}) although no pole lies in or on the cell', case)
                continue
            acc.n['pole_exempt_rings'] += 1
        acc.n['validated'] += 1
    if len(set(auto_len.get(kk) for kk in auto_len if kk[0])) > 1 or len(set(auto_len.get(kk) for kk in auto_len if not kk[0])) > 1:
        acc.violation(f'c12:{label}:auto-spellings', f'omitted / None / "auto" segment counts give different rings: {sorted(set(auto_len.values()))}', {'cell': hex(c), 'r': r, 'config': 'auto'})
    acc.n['nontrivial'] += 1


def work_paths(task):
    a5 = geo.api()
    acc = common.Acc()
    for path in task:
        check_cell(acc, a5, rm.encode(path), rm.res(path), '/'.join(map(str, path)))
        acc.strata[f'r{rm.res(path):02d}'] += 1
    return acc


def work_site(task):
    """cells crossing the antimeridian / touching a pole / at frame points, every resolution"""
    a5 = geo.api()
    kind, lon, lat, rs = task
    acc = common.Acc()
    seen = set()
    for r in rs:
        w = sp.width(r)
        for p in geo.neighbourhood(lon, lat, 5, [0.2 * w, 0.9 * w]):
            try:
                c = a5.lonlat_to_cell(p, r)
            except Exception:
                continue
            if c in seen or rm.decode(c) is None:
                continue
            seen.add(c)
            check_cell(acc, a5, c, r, f'{c:#x}')
            acc.strata[f'site_{kind}'] += 1
    return acc


def work_polar(task):
    """cells 0..3.5 widths from a pole along 12 meridians (0, 30, .., 330 and exactly +-180), every resolution"""
    a5 = geo.api()
    sgn, rs = task
    acc = common.Acc()
    seen = set()
    for r in rs:
        w = math.degrees(sp.width(r))
        for lon in [-180.0, 180.0] + [30.0 * k - 165.0 for k in range(12)] + [179.999999, -179.999999]:
            for dist in (0.3, 0.8, 1.3, 1.9, 2.6, 3.5):
                lat = sgn * max(0.0, 90.0 - dist * w)
                try:
                    c = a5.lonlat_to_cell((lon, lat), r)
                except Exception:
                    continue
                if c in seen or rm.decode(c) is None:
                    continue
                seen.add(c)
                check_cell(acc, a5, c, r, f'{c:#x}')
                acc.strata['polar_region'] += 1
    return acc


def run(tier, t0):
    acc = common.Acc()
    R = 4 if tier == 'quick' else 6
    tasks = []
    for r in range(0, R + 1):
        for ch in common.chunks(rm.interleaved(rm.descendants((), r)), 40):
            tasks.append((work_paths, ch))
    deep = []
    for r in range(R + 1, 30):
        pats = seeds.g1_patterns(r - 1, 'basic')
        for i, d in enumerate(pats):
            for j in range(1 if tier == 'quick' else 5):
                deep.append(((i + r + common.seed() + 5 * j) % 12, (i * 3 + r + j) % 5) + d)
    for ch in common.chunks(sorted(set(deep)), 40):
        tasks.append((work_paths, ch))
    rs = list(range(0, 30))
    for kind, lon, lat in geo.special_sites(tier, common.seed()):
        if kind in ('pole', 'antimeridian', 'lon_wrap') or tier == 'thorough':
            tasks.append((work_site, (kind, lon, lat, rs)))
        else:
            tasks.append((work_site, (kind, lon, lat, rs[common.seed() % 3::3])))
    for sgn in (1, -1):
        for rs in ([0, 1, 2, 3, 4, 5, 6, 7], list(range(8, 16)), list(range(16, 23)), list(range(23, 30))):
            tasks.append((work_polar, (sgn, rs)))
    tasks = common.rotate(tasks, common.seed())
    for part in common.pmap(_dispatch, tasks, chunksize=2):
        acc.merge(part)
    acc.sample({'cell': hex(rm.encode((9, 1, 2))), 'configs': [c for c, _ in CONFIGS[:4]] + ['... 25 in total']})
    rule = (f'every cell of resolutions 0..{R}, G1[basic] digit-pattern cells and the cells around both poles, 24 antimeridian points, the points on the meridian where the raw longitude of to_lonlat wraps (discovered by scanning it) and the 62 frame points at resolutions up to 29, each x 25 option '
            'combinations (options=None, closed_ring in {omitted, True, False} x segments in {omitted, None, "auto" (as the literal and as an equal string built at run time), 1, 2, 3, 7, 16}; at resolutions 26..29 also segments 32 and 64); a transition is one cell_to_boundary call; non-trivial = cells')
    return common.finish(PID, LEVEL, tier, acc, t0, rule, [
        'simple + counter-clockwise is decided in the gnomonic plane at the ring centroid (great-circle arcs are straight there): O(n) bearing test, exact O(n^2) crossing test + signed area before reporting',
        'the pole exemption is decided by the independent oracle (pole inside the ring or within 1e-9 rad of it)',
        'corner identity across segment counts: every corner of the segments=1 ring within 1e-13 rad of a vertex of every other ring',
    ], extra={'configs': len(CONFIGS)}, exhaustive=True)


def _dispatch(t):
    return t[0](t[1])


def replay(case):
    acc = common.Acc()
    check_cell(acc, geo.api(), int(case['cell'], 16), case['r'], 'replay')
    return [(k, w) for k, w, _ in acc.violations]
