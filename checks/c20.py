"""C20 - cell-count and area metadata agree with the actual hierarchy (E1; fully exhaustive on its small domain)."""
import math
from vf import common, refmodel as rm, seeds

PID = 'C20'
LEVEL = 'model_checking'
AUTHALIC_RADIUS = 6371007.2
SPHERE_AREA = 4 * math.pi * AUTHALIC_RADIUS * AUTHALIC_RADIUS


def _lib():
    import a5
    from a5.core import cell_info
    return a5, cell_info


def ulps(a, b):
    if a == b:
        return 0
    return abs(a - b) / math.ulp(max(abs(a), abs(b)))


def work_pairs(task):
    """the child-count rule on all resolution pairs, against the reference product of apertures"""
    a5, ci = _lib()
    acc = common.Acc()
    for a in range(-1, 31):
        for b in range(-1, 31):
            acc.n['states'] += 1
            case = {'kind': 'pair', 'a': a, 'b': b}
            try:
                got = ci.get_num_children(a, b)
            except Exception as e:
                acc.violation(f'num-children-raises:a={a}:b={b}', f'get_num_children({a}, {b}) raised {e!r}', case)
                continue
            acc.n['transitions'] += 1
            if b >= a:
                want = rm.num_desc(a, b)
                if got != want or not isinstance(got, int):
                    acc.violation(f'num-children:a={a}:b={b}', f'get_num_children({a}, {b}) = {got!r}, apertures give {want}', case)
                    continue
            acc.n['validated'] += 1
    return acc


def work_cells(task):
    """len(cell_to_children(c, b)) == get_num_children(res c, b) for concrete cells"""
    a5, ci = _lib()
    paths, maxkids = task
    acc = common.Acc()
    for path in paths:
        r = rm.res(path)
        c = rm.encode(path)
        # pairs with a child resolution coarser than the cell: the call may refuse (C06 requires that), but a list that IS returned has the length the rule says
        for b in range(-1, r):
            acc.n['states'] += 1
            acc.n['transitions'] += 1
            case = {'kind': 'cell', 'path': list(path), 'b': b}
            try:
                kids = a5.cell_to_children(c, b)
            except Exception:
                acc.n['validated'] += 1
                continue
            try:
                rule = ci.get_num_children(r, b)
            except Exception as e:
                acc.violation(f'cell-children-raises:{path}:b={b}', f'get_num_children({r}, {b}) raised {e!r}', case)
                continue
            if not isinstance(kids, list) or len(kids) != rule:
                acc.violation(f'cell-children-count:r={r}:b={b}:{"/".join(map(str, path))}',
                              f'get_num_children({r}, {b}) = {rule} but cell_to_children({c:#x}, {b}) returned {len(kids) if isinstance(kids, list) else kids!r} cells', case)
                continue
            acc.n['validated'] += 1
        for b in range(r, 30):
            if rm.num_desc(r, b) > maxkids:
                break
            acc.n['states'] += 1
            case = {'kind': 'cell', 'path': list(path), 'b': b}
            try:
                kids = a5.cell_to_children(c, b)
                rule = ci.get_num_children(r, b)
                unc = a5.uncompact([c], b)
            except Exception as e:
                acc.violation(f'cell-children-raises:{path}:b={b}', f'raised {e!r}', case)
                continue
            acc.n['transitions'] += 2
            if kids:
                n0 = len(kids)
                kids.pop()
                try:
                    kids2 = a5.cell_to_children(c, b)
                except Exception as e:
                    acc.violation(f'cell-children-raises:{path}:b={b}', f'second call raised {e!r}', case)
                    continue
                kids.append(kids2[-1] if kids2 else 0)
                if len(kids2) != n0:
                    acc.violation(f'cell-children-count-repeat:r={r}:b={b}:{"/".join(map(str, path))}',
                                  f'a second cell_to_children({c:#x}, {b}) returned {len(kids2)} cells after the caller shortened the first result ({n0})', case)
                    continue
            if len(kids) != rule or len(set(kids)) != rule or len(unc) != rule:
                acc.violation(f'cell-children-count:r={r}:b={b}:{"/".join(map(str, path))}',
                              f'get_num_children({r}, {b}) = {rule} but cell_to_children returned {len(kids)} ({len(set(kids))} distinct), uncompact {len(unc)}', case)
                continue
            acc.n['validated'] += 2
    return acc


def work_level(task):
    """get_num_cells(r) == distinct cells from the world cell == sum over every coarser level of children counts"""
    a5, ci = _lib()
    r, via = task
    acc = common.Acc()
    case = {'kind': 'level', 'r': r, 'via': via}
    acc.n['states'] += 1
    try:
        nc = a5.get_num_cells(r)
        if via == -1:
            cells = a5.cell_to_children(0, r)
            acc.n['transitions'] += len(cells)
            if len(cells) != nc or len(set(cells)) != nc or nc != rm.num_cells(r):
                acc.violation(f'num-cells:r={r}', f'get_num_cells({r}) = {nc}, world expansion gives {len(cells)} ({len(set(cells))} distinct), expected {rm.num_cells(r)}', case)
            else:
                acc.n['validated'] += len(cells)
        else:
            coarse = a5.cell_to_children(0, via)
            total = 0
            allk = set()
            for c in coarse:
                k = a5.cell_to_children(c, r)
                total += len(k)
                allk.update(k)
            acc.n['transitions'] += total
            if total != nc or len(allk) != nc:
                acc.violation(f'num-cells-sum:r={r}:via={via}', f'get_num_cells({r}) = {nc}, sum of children over level {via} = {total} ({len(allk)} distinct)', case)
            else:
                acc.n['validated'] += total
            # the same sum through the routine that sizes its output with the child-count rule: a cover of the world of mixed levels
            # (every third cell of level `via` replaced by its children when that stays above r), in descending and in interleaved order
            mixed = []
            for i, c in enumerate(coarse):
                if i % 3 == 1 and via + 1 <= r:
                    mixed.extend(a5.cell_to_children(c, via + 1))
                elif i % 3 == 2 and r <= 5:
                    mixed.extend(a5.cell_to_children(c, r))          # cells already at the target level between coarse ones
                else:
                    mixed.append(c)
            rep = mixed[len(mixed) // 2]
            extra = {'with a repeated cell': len(a5.cell_to_children(rep, r))}
            for name, cover in (('descending', sorted(mixed, reverse=True)), ('interleaved', mixed[::2] + mixed[1::2]), ('with a repeated cell', mixed + [rep])):
                got = a5.uncompact(list(cover), r)
                acc.n['transitions'] += len(got)
                if len(got) != nc + extra.get(name, 0) or set(got) != allk:
                    acc.violation(f'num-cells-uncompact:r={r}:via={via}:{name}', f'uncompact of a {name} mixed-level cover of the world ({len(cover)} cells of levels {via}/{via + 1}/{r}) to level {r} gives {len(got)} cells ({len(set(got))} distinct), get_num_cells = {nc}', case)
                else:
                    acc.n['validated'] += len(got)
    except Exception as e:
        acc.violation(f'level-raises:r={r}:via={via}', f'raised {e!r}', case)
    return acc


def check_area(acc):
    a5, ci = _lib()
    prev = None
    for r in range(0, 31):
        acc.n['states'] += 1
        case = {'kind': 'area', 'r': r}
        try:
            ar = a5.cell_area(r)
            nc = a5.get_num_cells(r)
        except Exception as e:
            acc.violation(f'area-raises:r={r}', f'raised {e!r}', case)
            continue
        acc.n['transitions'] += 1
        if nc != rm.num_cells(r):
            acc.violation(f'num-cells-formula:r={r}', f'get_num_cells({r}) = {nc}, expected {rm.num_cells(r)}', case)
            continue
        u = ulps(ar * nc, SPHERE_AREA)
        acc.maximum('area_product_ulps', u, r)
        if not (u <= 4):
            acc.violation(f'area-product:r={r}', f'cell_area({r}) * get_num_cells({r}) = {ar * nc!r}, sphere area {SPHERE_AREA!r} ({u:.1f} ulp)', case)
            continue
        if prev is not None and not (ar < prev):
            acc.violation(f'area-monotone:r={r}', f'cell_area({r}) = {ar!r} is not smaller than cell_area({r - 1}) = {prev!r}', case)
            continue
        prev = ar
        acc.n['validated'] += 1
    for r in range(-1, 31):
        try:
            if a5.get_num_cells(r) != (rm.num_cells(r) if r >= 0 else 0):
                acc.violation(f'num-cells-formula:r={r}', f'get_num_cells({r}) = {a5.get_num_cells(r)}', {'kind': 'area', 'r': r})
        except Exception as e:
            acc.violation(f'num-cells-raises:r={r}', f'raised {e!r}', {'kind': 'area', 'r': r})


def run(tier, t0):
    acc = common.Acc()
    R = 7 if tier == 'quick' else 8
    check_area(acc)
    acc.merge(work_pairs(None))
    tasks = []
    # every cell of resolutions -1..3, all child levels with <= 4^8 children
    low = [p for r in range(-1, 4) for p in rm.descendants((), r)]
    maxkids = 4 ** 6 if tier == 'quick' else 4 ** 8
    for ch in common.chunks(low, 64):
        tasks.append((work_cells, (ch, maxkids if len(ch[0]) > 1 else 4 ** 8)))
    # one seed per (face-rotating) level up to 29, all patterns 'basic'
    deep = []
    for r in range(4, 30):
        pats = seeds.g1_patterns(r - 1, 'basic')
        for i, d in enumerate(pats):
            deep.append(((i + r + common.seed()) % 12, (i * 7 + r) % 5) + d)
    for ch in common.chunks(deep, 32):
        tasks.append((work_cells, (ch, 4 ** 4 if tier == 'quick' else 4 ** 6)))
    # very large fan-outs in ONE call (up to 2^20 children, thorough 2^22) from one parent of every aperture class
    giants = [(), (7,), (0, 0), (6, 2), (11, 4), (3, 1, 2), (9, 3, 0, 1, 2, 3), (5, 2) + (1, 3) * 9]
    for gp in giants:
        tasks.append((work_cells, ([gp], 2 ** 20 if tier == 'quick' else 2 ** 22)))
    for r in range(0, R + 1):
        tasks.append((work_level, (r, -1)))
        for via in range(0, r):
            if tier == 'thorough' or r <= 6:
                tasks.append((work_level, (r, via)))
    tasks = common.rotate(tasks, common.seed())
    for part in common.pmap(_dispatch, tasks):
        acc.merge(part)
    acc.n['nontrivial'] = acc.n['states']
    acc.sample({'pair': [0, 3], 'get_num_children': 80, 'cells_checked': 'all 12 faces'})
    acc.sample({'level': R, 'get_num_cells': rm.num_cells(R), 'compared_with': 'len(set(cell_to_children(0, r))) and sums over each coarser level'})
    rule = (f'all 32x32 resolution pairs; every cell of resolutions -1..3 x child levels (<= {maxkids} children) and G1[basic] seeds at 4..29; eight parents of every aperture class (world, face, quintants, resolutions 2, 5, 19) x every child level with <= 2^20 (thorough 2^22) children in one call; '
            f'levels 0..{R} enumerated from the world cell and re-summed over coarser levels, also through uncompact of mixed-level covers given in descending and interleaved order; areas for r = 0..30')
    return common.finish(PID, LEVEL, tier, acc, t0, rule, [
        'authalic sphere area taken as 4*pi*6371007.2^2 (the constant documented by the package)',
        'apertures 12, 5, 4, 4, ... are the specification of the hierarchy (reference: vf/refmodel.num_desc)',
    ], extra={'enumerated_to_resolution': R}, exhaustive=True)


def _dispatch(t):
    return t[0](t[1])


def replay(case):
    acc = common.Acc()
    k = case['kind']
    if k == 'pair':
        acc = work_pairs(None)
    elif k == 'cell':
        acc = work_cells(([tuple(case['path'])], 4 ** 8))
    elif k == 'level':
        acc = work_level((case['r'], case['via']))
    else:
        check_area(acc)
    return [(k, w) for k, w, _ in acc.violations]
