"""E3 - antichain-lattice explorer.

A state is a finite antichain of cells (sorted tuple of tuple-paths).  Transitions are edit operations:
    remove(x)           drop one cell
    split(x)            replace x by its children (12, 5 or 4)
BFS from base states to edit distance k with deduplication on the state itself (exact, no hashing abstraction).
"""
import itertools
from . import refmodel as rm


def successors(state, max_res):
    s = set(state)
    for x in state:
        rest = s - {x}
        yield ('remove', x), tuple(sorted(rest))
        if rm.res(x) < max_res:
            yield ('split', x), tuple(sorted(rest | set(rm.children(x))))


def bfs(bases, k, max_res_of):
    """yields (depth, state, trace) in BFS order; trace = list of edit operations from the base.
    max_res_of(base) -> deepest resolution splits may reach for that base."""
    seen = set()
    frontier = []
    for b in bases:
        st = tuple(sorted(b))
        if st not in seen:
            seen.add(st)
            frontier.append((st, (), max_res_of(b)))
            yield 0, st, ()
    transitions = 0
    for depth in range(1, k + 1):
        nxt = []
        for st, trace, mr in frontier:
            for op, s2 in successors(st, mr):
                transitions += 1
                if s2 in seen:
                    continue
                seen.add(s2)
                t2 = trace + (op,)
                nxt.append((s2, t2, mr))
                yield depth, s2, t2
        frontier = nxt
    bfs.transitions = transitions


def presentations(ids, all_perms_upto, seed=0):
    """input lists presented to compact for one state: several orders and duplications"""
    L = sorted(ids)
    out = [list(L)]
    if len(L) > 1:
        out.append(list(reversed(L)))
        r = (len(L) // 2 + seed) % len(L) or 1
        out.append(L[r:] + L[:r])
        # interleave halves: breaks any "already sorted run" assumption
        h = len(L) // 2
        il = []
        for a, b in itertools.zip_longest(L[h:], L[:h]):
            if a is not None:
                il.append(a)
            if b is not None:
                il.append(b)
        out.append(il)
    if L:
        out.append([L[-1]] + L + [L[0], L[0]])
        # ascending WITH neighbouring duplicates (what sorted(a + b) of two overlapping selections looks like)
        m = (len(L) // 2 + seed) % len(L)
        out.append(L[:m + 1] + [L[m]] + L[m + 1:] + [L[-1]])
    if 1 < len(L) <= all_perms_upto:
        for p in itertools.permutations(L):
            out.append(list(p))
    return out


def overlap_variants(state, limit=2):
    """lists that are NOT antichains: an ancestor or some descendants of a member added (for C08)"""
    out = []
    st = list(state)
    cnt = 0
    for x in st:
        if len(x) >= 1:
            out.append(st + [x[:-1]])              # immediate parent added
            if len(x) >= 2:
                out.append(st + [x[:1]])           # face ancestor added
            cnt += 1
        if rm.res(x) < 28:
            ch = rm.children(x)
            out.append(st + [ch[0]])
            out.append(st + ch[1:])                # all children but the first next to the cell itself
            out.append(st + [ch[-1] + (0,)] if rm.res(x) < 27 else st + [ch[-1]])
            cnt += 1
        if cnt >= limit:
            break
    return out
