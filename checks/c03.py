"""C03 - cells of one resolution tile the globe: no gaps, no overlaps.

Exhaustive part (low resolutions): manifold certificate over ALL cells of a level - every directed corner-to-corner edge
occurs once, its reverse once in another cell, interior samples of the two owners coincide, V - E + F = 2, areas sum to 4 pi.
Local part (every resolution): BFS of the adjacency graph whose successor function is "lonlat_to_cell just beyond edge i";
the neighbour's ring must contain the reversed edge and the fan of cells around every corner must close with angles
summing to 2 pi.
"""
import math
from vf import common, refmodel as rm, seeds, sphere as sp, geo

PID = 'C03'
LEVEL = 'model_checking'
K = 4


def etol(r):
    return 1e-9 * sp.width(r) + 1e-13


def corner_indices(c, r, ringk, k):
    """positions of the cell's corners inside its k-segment ring (discovered by matching the segments=1 ring)"""
    r1 = geo.ring(c, 1, cache=False)
    idx = []
    for d, i in sp.align(r1, ringk):
        if d > etol(r):
            return None
        idx.append(i)
    idx.sort()
    n = len(ringk)
    if len(set(idx)) != len(r1) or any(((idx[(j + 1) % len(idx)] - idx[j]) % n) != k for j in range(len(idx))):
        return None
    return idx


def cell_edges(c, r, k=K):
    """list of edges of the cell in ring order: each edge = list of k+1 unit vectors from corner to corner; None if malformed"""
    rg = geo.ring(c, k, cache=False)
    # with one segment per edge every vertex is a corner (no second boundary call: the ring is taken exactly as one caller gets it)
    idx = list(range(len(rg))) if k == 1 else corner_indices(c, r, rg, k)
    if idx is None:
        return None, rg
    n = len(rg)
    edges = []
    for i0 in idx:
        edges.append([rg[(i0 + t) % n] for t in range(k + 1)])
    return edges, rg


def work_level(task):
    """rings of a chunk of cells of one level"""
    if isinstance(task, tuple):
        paths, kk = task
    else:
        paths, kk = task, K
    acc = common.Acc()
    out = []
    for p in paths:
        c = rm.encode(p)
        r = rm.res(p)
        try:
            edges, rg = cell_edges(c, r, kk)
        except Exception as e:
            acc.violation(f'c03:level{r}:{c:#x}:raises', f'cell_to_boundary({c:#x}) raised {type(e).__name__}: {e}', {'kind': 'level', 'r': r})
            continue
        if edges is None:
            acc.violation(f'c03:level{r}:{c:#x}:corners', f'corners of the segments=1 ring of {c:#x} are not found at regular positions in its segments={K} ring', {'kind': 'level', 'r': r})
            continue
        out.append((c, edges, sp.ring_area(rg)))
    acc.out = out
    return acc


class VertexIndex:
    """tolerance-merged vertex identities (no hash-rounding artefacts: 27-neighbourhood lookup on a coarse grid)"""

    def __init__(self, tol, q):
        self.tol = tol
        self.q = q
        self.grid = {}
        self.pts = []

    def get(self, v):
        q = self.q
        kx, ky, kz = int(math.floor(v[0] / q)), int(math.floor(v[1] / q)), int(math.floor(v[2] / q))
        for dx in (-1, 0, 1):
            for dy in (-1, 0, 1):
                for dz in (-1, 0, 1):
                    lst = self.grid.get((kx + dx, ky + dy, kz + dz))
                    if lst:
                        for i in lst:
                            u = self.pts[i]
                            if abs(u[0] - v[0]) <= self.tol and abs(u[1] - v[1]) <= self.tol and abs(u[2] - v[2]) <= self.tol:
                                return i
        i = len(self.pts)
        self.pts.append(v)
        self.grid.setdefault((kx, ky, kz), []).append(i)
        return i


def certify_level(acc, r, cells):
    """cells: list of (id, edges, area)"""
    case = {'kind': 'level', 'r': r}
    tol = etol(r)
    vi = VertexIndex(tol, max(1e-2 * sp.width(r), 4 * tol))
    directed = {}
    total_area = 0.0
    for c, edges, area in cells:
        total_area += area
        if not (area > 0):
            acc.violation(f'c03:level{r}:{c:#x}:area-sign', f'ring of {c:#x} has non-positive signed area {area!r}', case)
        for e in edges:
            a = vi.get(e[0])
            b = vi.get(e[-1])
            if a == b:
                acc.violation(f'c03:level{r}:{c:#x}:degenerate-edge', f'cell {c:#x} has an edge whose end points coincide', case)
                continue
            directed.setdefault((a, b), []).append((c, e))
    acc.n['transitions'] += len(directed)
    bad = 0
    for (a, b), owners in directed.items():
        if len(owners) != 1:
            acc.violation(f'c03:level{r}:edge-multi:{owners[0][0]:#x}', f'a directed edge is used by {len(owners)} cells ({", ".join(hex(o[0]) for o in owners[:3])}): overlap', case)
            bad += 1
            continue
        rev = directed.get((b, a))
        c, e = owners[0]
        if rev is None:
            acc.violation(f'c03:level{r}:edge-unmatched:{c:#x}', f'an edge of {c:#x} has no neighbour using it in the opposite direction: gap or T-junction', case)
            bad += 1
            continue
        if len(rev) != 1 or rev[0][0] == c:
            continue
        e2 = rev[0][1]
        worst = max(sp.norm(sp.sub(e[t], e2[len(e2) - 1 - t])) for t in range(len(e)))
        acc.maximum(f'edge_mismatch_rad_level{r}', worst, [hex(c), hex(rev[0][0])])
        if worst > tol:
            acc.violation(f'c03:level{r}:edge-interior:{min(c, rev[0][0]):#x}', f'interior points of the edge shared by {c:#x} and {rev[0][0]:#x} differ by {worst:.3g} rad', case)
            bad += 1
            continue
        acc.n['validated'] += 1
    V = len(vi.pts)
    E = len(directed) // 2
    F = len(cells)
    if not bad:
        if len(directed) % 2 or V - E + F != 2:
            acc.violation(f'c03:level{r}:euler', f'V - E + F = {V} - {E} + {F} = {V - E + F} (directed edges {len(directed)}), expected 2', case)
        if F != rm.num_cells(r):
            acc.violation(f'c03:level{r}:count', f'{F} well-formed cells of {rm.num_cells(r)}', case)
    rel = abs(total_area / (4 * math.pi) - 1)
    acc.maximum('area_sum_rel_err', rel, r)
    if rel > 1e-9:
        acc.violation(f'c03:level{r}:area-sum', f'signed areas of the {F} rings sum to {total_area!r}, sphere {4 * math.pi!r} (rel {rel:.3g})', case)
    acc.strata[f'level{r:02d}_cells'] = F
    acc.strata[f'level{r:02d}_vertices'] = V
    acc.strata[f'level{r:02d}_edges'] = E
    acc.n['states'] += F


# ---------------------------------------------------------------------------------------------------------------
# local part: adjacency graph via lonlat_to_cell
# ---------------------------------------------------------------------------------------------------------------

class Local:
    def __init__(self, a5, r, acc):
        self.a5, self.r, self.acc = a5, r, acc
        self.edges = {}
        self.nb = {}
        self.mismatch = None

    def cell_edges(self, c):
        v = self.edges.get(c)
        if v is None:
            e, rg = cell_edges(c, self.r, 2)
            v = self.edges[c] = (e, sp.centroid(rg)) if e is not None else (None, None)
        return v

    def neighbour(self, c, i):
        """cell returned by lonlat_to_cell just beyond edge i of c"""
        key = (c, i)
        if key in self.nb:
            return self.nb[key]
        edges, cen = self.cell_edges(c)
        m = edges[i][1]
        w = sp.width(self.r)
        out = sp.unit(sp.sub(m, cen))
        # push along the tangent direction away from the centroid
        t = sp.unit(sp.sub(out, sp.scale(m, sp.dot(out, m))))
        p = sp.unit(sp.add(m, sp.scale(t, 1e-2 * w)))
        n = self.a5.lonlat_to_cell(sp.lonlat(p), self.r)
        self.acc.n['transitions'] += 1
        if self.r <= 12:
            # "just beyond" at a second, ten times smaller distance must name the same neighbour
            p2 = sp.unit(sp.add(m, sp.scale(t, 1e-3 * w)))
            n2 = self.a5.lonlat_to_cell(sp.lonlat(p2), self.r)
            self.acc.n['transitions'] += 1
            if n2 != n:
                self.mismatch = (c, i, n, n2)
        self.nb[key] = n
        return n

    def find_reversed(self, n, edge):
        """index of the edge of n that is `edge` reversed (end points and interior sample within tolerance), or None"""
        edges, _ = self.cell_edges(n)
        if edges is None:
            return None
        tol = etol(self.r)
        for j, e in enumerate(edges):
            if all(sp.norm(sp.sub(e[t], edge[len(edge) - 1 - t])) <= tol for t in range(len(edge))):
                return j
        return None


def interior_angle(e_out, e_in):
    """interior angle at corner a = e_out[0] = e_in[-1] of a CCW cell, between the outgoing edge and the incoming edge"""
    a = e_out[0]
    e1, e2 = sp.basis(a)
    go = sp.gnomonic(a, e1, e2, e_out[1])
    gi = sp.gnomonic(a, e1, e2, e_in[-2])
    ang = math.atan2(gi[1], gi[0]) - math.atan2(go[1], go[0])
    return ang % (2 * math.pi)


def check_seed(acc, a5, c, r, depth):
    """adjacency BFS from c to graph distance `depth`; vertex fans around every corner of c"""
    loc = Local(a5, r, acc)
    label = f'{c:#x}'
    case = {'kind': 'seed', 'cell': hex(c), 'r': r, 'depth': depth}
    acc.n['states'] += 1
    try:
        frontier = [c]
        seen = {c}
        for dist in range(depth):
            nxt = []
            for x in frontier:
                edges, _ = loc.cell_edges(x)
                if edges is None:
                    acc.violation(f'c03:local:{x:#x}:corners', f'corners of {x:#x} not found at regular positions in its segments=2 ring', case)
                    return
                for i, e in enumerate(edges):
                    n = loc.neighbour(x, i)
                    if loc.mismatch is not None:
                        mc, mi, mn, mn2 = loc.mismatch
                        acc.violation(f'c03:local:{mc:#x}:edge{mi}:two-distances', f'beyond edge {mi} of {mc:#x} (res {r}) lonlat_to_cell returns {mn:#x} at 1e-2 widths but {mn2:#x} at 1e-3 widths', case)
                        return
                    if n == x:
                        acc.violation(f'c03:local:{x:#x}:edge{i}:self', f'the point just beyond edge {i} of {x:#x} (res {r}) is assigned to {x:#x} itself', case)
                        return
                    j = loc.find_reversed(n, e)
                    if j is None:
                        acc.violation(f'c03:local:{x:#x}:edge{i}:no-reverse', f'cell {n:#x} returned just beyond edge {i} of {x:#x} (res {r}) does not have that edge reversed in its ring', case)
                        return
                    # symmetry: going back across the same edge returns x
                    back = loc.neighbour(n, j)
                    if back != x:
                        acc.violation(f'c03:local:{x:#x}:edge{i}:asymmetric', f'{n:#x} is the neighbour of {x:#x} across an edge but the point beyond that edge of {n:#x} is assigned to {back:#x}', case)
                        return
                    acc.n['validated'] += 1
                    if n not in seen:
                        seen.add(n)
                        nxt.append(n)
            frontier = nxt
        # vertex fans around every corner of the seed
        edges, _ = loc.cell_edges(c)
        ne = len(edges)
        for i in range(ne):
            a = edges[i][0]
            x, ei = c, i                      # in cell x, edge ei starts at a
            total = 0.0
            size = 0
            while True:
                ex, _ = loc.cell_edges(x)
                e_out = ex[ei]
                e_in = ex[(ei - 1) % len(ex)]
                total += interior_angle(e_out, e_in)
                size += 1
                # cross the incoming edge (it ends at a): in the neighbour the reversed edge starts at a
                n = loc.neighbour(x, (ei - 1) % len(ex))
                j = loc.find_reversed(n, e_in)
                if j is None:
                    acc.violation(f'c03:local:{label}:fan{i}:no-reverse', f'walking around corner {i} of {c:#x} (res {r}): {n:#x} does not share the edge with {x:#x}', case)
                    return
                x, ei = n, j
                if x == c or size > 7:
                    break
            # resolution-1 cells are triangles: six of them meet at a dodecahedron vertex (two per face), five at a face centre
            if x != c or size not in ((3, 4, 5, 6) if r == 1 else (3, 4, 5)):
                acc.violation(f'c03:local:{label}:fan{i}:size', f'the fan of cells around corner {i} of {c:#x} (res {r}) does not close after 3..5 cells (6 at resolution 1) (visited {size})', case)
                return
            err = abs(total - 2 * math.pi)
            acc.maximum('fan_angle_err', err, [hex(c), i])
            # noise model: every angle uses three ring vertices known to ~2e-14 rad (measured edge mismatch 1.3e-14 plus lon/lat
            # rounding) over arms >= 0.25 widths -> 3.2e-13/width per angle, up to 5 angles per fan
            if err > 1e-6 + 2e-12 / sp.width(r):
                acc.violation(f'c03:local:{label}:fan{i}:angles', f'interior angles around corner {i} of {c:#x} (res {r}) sum to {total!r}, not 2 pi', case)
                return
            acc.n['fans'] += 1
            acc.n[f'fan_size_{size}'] += 1
            acc.n['validated'] += 1
    except Exception as e:
        acc.violation(f'c03:local:{label}:raises', f'raised {type(e).__name__}: {e}', case)
        return
    acc.n['nontrivial'] += 1


def work_local(task):
    a5 = geo.api()
    acc = common.Acc()
    kind = task[0]
    if kind == 'paths':
        for p in task[1]:
            check_seed(acc, a5, rm.encode(p), rm.res(p), task[2])
            acc.strata['local_pattern_seeds'] += 1
    else:
        _, skind, lon, lat, rs, depth = task
        seen = set()
        for r in rs:
            w = sp.width(r)
            for p in geo.neighbourhood(lon, lat, 3, [0.4 * w]):
                try:
                    c = a5.lonlat_to_cell(p, r)
                except Exception:
                    continue
                if c in seen or rm.decode(c) is None:
                    continue
                seen.add(c)
                check_seed(acc, a5, c, r, depth)
                acc.strata[f'local_{skind}'] += 1
    return acc


def run(tier, t0):
    acc = common.Acc()
    RL = 6 if tier == 'quick' else 7
    # ---- exhaustive manifold certificates
    for r in range(0, RL + 1):
        paths = rm.descendants((), r)
        cells = []
        for part in common.pmap(work_level, common.chunks(rm.interleaved(paths), 400)):
            cells.extend(part.out)
            part.out = None
            acc.merge(part)
        certify_level(acc, r, cells)
        if r <= 3:
            # the same certificate on the rings with 1 and 2 segments per edge (the option values most callers use), cells in plain order
            for kk in (1, 2):
                cells = []
                for part in common.pmap(work_level, [(ch, kk) for ch in common.chunks(paths, 400)], nproc=1 if r == 0 else None):
                    cells.extend(part.out)
                    part.out = None
                    acc.merge(part)
                certify_level(acc, r, cells)
                acc.strata[f'level{r:02d}_segments{kk}_cells'] = len(cells)
    # ---- local adjacency exploration at every resolution >= 2
    depth = 1 if tier == 'quick' else 2
    tasks = []
    deep = []
    for ch in common.chunks(rm.descendants((), 0) + rm.descendants((), 1), 12):
        tasks.append(('paths', ch, 1))          # every face and every segment: neighbours via lonlat_to_cell at the two coarsest levels too
    for r in range(2, 30):
        pats = seeds.g1_patterns(r - 1, 'basic')
        for i, d in enumerate(pats):
            for j in range(1 if tier == 'quick' else 3):
                deep.append(((i + r + common.seed() + 5 * j) % 12, (i * 3 + r + j) % 5) + d)
    for ch in common.chunks(sorted(set(deep)), 12):
        tasks.append(('paths', ch, depth))
    for skind, lon, lat in geo.special_sites(tier, common.seed()):
        rs = list(range(2, 30)) if tier == 'thorough' or skind == 'pole' else list(range(2 + common.seed() % 3, 30, 3)) + [27, 28, 29]
        tasks.append(('site', skind, lon, lat, sorted(set(rs)), depth))
    tasks = common.rotate(tasks, common.seed())
    common.pmap_merge(work_local, tasks, acc, chunksize=1)
    acc.sample({'level': RL, 'certificate': 'every directed edge once, reverse once in another cell, interior samples equal, V-E+F=2, sum of signed areas = 4 pi'})
    acc.sample({'seed cell': hex(rm.encode((0, 0) + (3,) * 20)), 'local': 'neighbours via lonlat_to_cell just beyond each edge, reversed edge present, symmetric, 5 vertex fans close with 2 pi'})
    rule = (f'all cells of every resolution 0..{RL} (complete manifold certificate per level, rings with {K} segments per edge); for resolutions 2..29 adjacency BFS to graph distance {depth} from G1[basic] '
            'digit-pattern cells and from the cells at both poles, 24 antimeridian points and the 62 frame points; a state is a cell, a transition a directed edge or a neighbour lookup; non-trivial = seeds fully certified')
    return common.finish(PID, LEVEL, tier, acc, t0, rule, [
        'vertices are identified when closer than 1e-9 cell widths + 1e-13 rad (27-neighbourhood grid lookup, no rounding artefacts)',
        'beyond the exhaustive levels only the neighbourhoods of seed cells are certified (local manifold test), not whole levels',
        'interior angles are measured to the adjacent segments=2 sample of each edge; both owners of an edge use the same sample, so fans sum to 2 pi independently of edge curvature',
    ], extra={'exhaustive_to_resolution': RL, 'local_depth': depth}, exhaustive=True)


def replay(case):
    acc = common.Acc()
    if case.get('kind') == 'seed':
        check_seed(acc, geo.api(), int(case['cell'], 16), case['r'], case.get('depth', 1))
    else:
        r = case['r']
        part = work_level(rm.descendants((), r))
        cells = part.out
        acc.merge(part)
        certify_level(acc, r, cells)
    return [(k, w) for k, w, _ in acc.violations]
