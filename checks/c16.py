"""C16 - results do not depend on what other threads are doing (E4 schedule explorer, context bound 2).

Every schedule "A preempted at line/instruction k, B runs to completion, A resumes" for all pairs of a call menu, from a
cold and from a warm library; oracle = bit-identical values to the same call run alone in a pristine process.
"""
import os
import math
import multiprocessing
from vf import common, sched

PID = 'C16'
LEVEL = 'model_checking'
CAP = None        # quick tier: (first n, last m) dynamic occurrences of each line site; thorough: every occurrence


def prepare(_):
    """runs in a throw-away process: derive the constants of the menu with the library itself"""
    import a5
    import copy
    from a5.core import cell as _cell0
    def _snapshot(obj, depth=0):
        # attribute by attribute: what cannot be copied (a lock, say) is kept by reference, objects holding such things are descended into
        snap = {}
        for name, v in vars(obj).items():
            try:
                snap[name] = ('copy', copy.deepcopy(v))
            except Exception:
                snap[name] = ('object', v, _snapshot(v, depth + 1)) if (hasattr(v, '__dict__') and depth < 3) else ('ref', v)
        return snap

    def _restore(obj, snap):
        new = {}
        for name, item in snap.items():
            if item[0] == 'copy':
                new[name] = copy.deepcopy(item[1])
            else:
                new[name] = item[1]
                if item[0] == 'object':
                    _restore(item[1], item[2])
        vars(obj).clear()
        vars(obj).update(new)

    try:
        _PRISTINE = _snapshot(_cell0._dodecahedron)     # before the first library call of this process
    except Exception:
        _PRISTINE = None
    from a5.core.origin import origins
    from a5.core.coordinate_transforms import to_cartesian, to_spherical, to_lonlat
    # a face-edge midpoint: normalised sum of two adjacent face centres (faces 3 and its nearest neighbour)
    c0 = to_cartesian(origins[3].axis)
    best = None
    for o in origins:
        if o.id == 3:
            continue
        c = to_cartesian(o.axis)
        d = sum(a * b for a, b in zip(c0, c))
        if best is None or d > best[0]:
            best = (d, c)
    m = [a + b for a, b in zip(c0, best[1])]
    n = math.sqrt(sum(x * x for x in m))
    m = [x / n for x in m]
    edge_lonlat = to_lonlat(to_spherical(tuple(m)))
    edge_lonlat = ((edge_lonlat[0] + 180) % 360 - 180, edge_lonlat[1])
    # ---- force the geometric calls to collide: search, with the library itself, for a boundary call and a lonlat_to_cell call
    # next to this face edge that touch the SAME lazily filled cache slots, including the reflected ("beyond the edge") ones
    from a5.core import cell as _cell

    def touched(fn):
        # the lazily filled state of the projection object is put back to its import-time value (a deep copy taken before the first
        # library call of this process: no assumption about which caches exist or what shape they have), then fn runs and the filled
        # slots are read off; if the object cannot be restored or read this way the search degrades to the default constants below
        d = _cell._dodecahedron
        if _PRISTINE is None:
            return frozenset()
        _restore(d, _PRISTINE)
        fn()
        try:
            ft = {('face', i) for i, t in enumerate(d.face_triangles) if t is not None}
            st = {('sph', i) for i, t in enumerate(d.spherical_triangles) if t is not None}
        except Exception:
            return frozenset()
        return frozenset(ft | st)

    def reflected(slots):
        return {x for x in slots if (x[0] == 'face' and x[1] >= 10) or (x[0] == 'sph' and x[1] >= 120)}

    offsets = [(a * 1e-3, b * 1e-3) for a in (-8, -3, -1, 0, 1, 3, 8) for b in (-8, -3, -1, -0.1, 0.1, 1, 3, 8)]
    best = None
    for res_b in (4, 5, 6):
        for dx, dy in offsets:
            p = (edge_lonlat[0] + math.degrees(dx), edge_lonlat[1] + math.degrees(dy))
            cbx = a5.lonlat_to_cell(p, res_b)
            sb = touched(lambda: a5.cell_to_boundary(cbx, {'segments': 2}))
            if not reflected(sb):
                continue
            for dx2, dy2 in offsets:
                q = (edge_lonlat[0] + math.degrees(dx2), edge_lonlat[1] + math.degrees(dy2))
                sq = touched(lambda: a5.lonlat_to_cell(q, 7))
                # at least one shared reflected slot, then the cheapest lonlat_to_cell (few candidate cells tested), then most shared slots
                score = (min(len(reflected(sb) & reflected(sq)), 1), -len(sq), len(sb & sq))
                if best is None or score > best[0]:
                    best = (score, cbx, q, sorted(sb & sq))
        if best is not None and best[0][0] >= 1:
            break
    if best is not None and best[0][0] >= 1:
        cb, near, shared = best[1], best[2], best[3]
    else:
        near = (edge_lonlat[0] + math.degrees(1e-4), edge_lonlat[1] + math.degrees(0.5e-4))
        cb = a5.lonlat_to_cell(edge_lonlat, 5)
        shared = []
    c7 = a5.lonlat_to_cell(near, 7)
    c4 = a5.cell_to_parent(c7, 4)
    c5 = a5.cell_to_parent(c7, 5)
    sib = a5.cell_to_children(c5, 7)
    strays = [a5.lonlat_to_cell((near[0] + 3, near[1] - 2), 6), a5.lonlat_to_cell((near[0] - 40, near[1] + 10), 3)]
    fc = to_lonlat(origins[3].axis)
    fc = ((fc[0] + 180) % 360 - 180, fc[1])
    centre_a = (fc[0] + math.degrees(3e-9), fc[1] + math.degrees(1e-9))      # 2 cm from a face centre: the small-angle branches
    centre_b = (fc[0] + math.degrees(2e-9), fc[1] + math.degrees(1.5e-9))     # same triangle as centre_a
    c29 = a5.lonlat_to_cell(centre_a, 29)
    # one resolution-3 cell per (face, triangle): used to bring the lazily filled caches to any fill level before a pair is explored
    from a5.core.cell import _dodecahedron as _dd
    from a5.core.coordinate_transforms import to_face
    from a5.core.constants import distance_to_edge as _de, PI_OVER_5 as _p5
    fill = []
    for f in range(12):
        for tri in range(10):
            g = (tri + 0.5) * _p5
            ll = to_lonlat(_dd.inverse(to_face((0.45 * _de, g)), f))
            cc = a5.lonlat_to_cell(((ll[0] + 180) % 360 - 180, ll[1]), 3)
            if cc not in fill:
                fill.append(cc)
    # collision matrix of the geometric calls (shared cache slots), for the evidence
    kk = {'edge': edge_lonlat, 'near': near, 'c7': c7, 'cb': cb, 'c4': c4, 'c5': c5, 'sib': sib, 'strays': strays,
          'mid': (near[0] + 0.4, near[1] - 0.3), 'centre_a': centre_a, 'centre_b': centre_b, 'c29': c29}
    menu = build_menu(kk)
    slots = {n: touched(menu[n]) for n in GEO_A + GEO_B}
    kk['shared_slots'] = {f'{a}|{b}': [len(slots[a] & slots[b]), len(reflected(slots[a]) & reflected(slots[b]))] for a in GEO_A for b in GEO_B}
    kk['collision_search'] = {'shared_by_boundary_and_lonlat': [list(x) for x in shared]}
    kk['fill'] = fill
    return kk


def build_menu(k):
    import a5
    return {
        'lonlat_to_cell_r2': lambda: a5.lonlat_to_cell(k['mid'], 2),
        'lonlat_to_cell_r6_mid': lambda: a5.lonlat_to_cell(k['mid'], 6),      # a different point of the same face region: different intermediate vectors
        'lonlat_to_cell_r7_edge': lambda: a5.lonlat_to_cell(k['near'], 7),
        'cell_to_lonlat': lambda: a5.cell_to_lonlat(k['c7']),
        'boundary_seg2_edge': lambda: a5.cell_to_boundary(k['cb'], {'segments': 2}),
        'boundary_auto_r4': lambda: a5.cell_to_boundary(k['c5']),        # automatic segment count (resolution 5: 2 per edge)
        'compact': lambda: a5.compact(list(reversed(k['sib'])) + k['strays']),
        'uncompact': lambda: a5.uncompact([k['c5'], k['strays'][0]], 7),
        'children_parent': lambda: (a5.cell_to_children(k['c5'], 7), a5.cell_to_parent(k['c7'], 2), a5.get_res0_cells()),
        'scalars': lambda: (a5.get_resolution(k['c7']), a5.u64_to_hex(k['c7']), a5.hex_to_u64('%x' % k['c7']), a5.get_num_cells(7), a5.cell_area(7)),
        'lonlat_to_cell_r12': lambda: a5.lonlat_to_cell(k['edge'], 12),
        'cell_to_lonlat_r4': lambda: a5.cell_to_lonlat(k['c4']),
        'boundary_closed_seg1': lambda: a5.cell_to_boundary(k['c7'], {'segments': 1, 'closed_ring': False}),
        'boundary_far_seg1': lambda: a5.cell_to_boundary(k['strays'][1], {'segments': 1}),      # a cell of another face
        'lonlat_to_cell_r29_centre_a': lambda: a5.lonlat_to_cell(k['centre_a'], 29),
        'lonlat_to_cell_r29_centre_b': lambda: a5.lonlat_to_cell(k['centre_b'], 29),
        'cell_to_lonlat_r29_centre': lambda: a5.cell_to_lonlat(k['c29']),
        'scalars_b': lambda: (a5.get_num_cells(5), a5.cell_area(11), a5.get_resolution(k['c4']), a5.u64_to_hex(k['c4'])),
        'scalars_c': lambda: (a5.get_num_cells(9), a5.cell_area(3), a5.get_num_cells(2)),
        'uncompact_low': lambda: a5.uncompact([a5.get_res0_cells()[4]], 2),
        # the child-count rule is public too (a5.core.cell_info) and is what uncompact / cell_to_children size their results with
        'counts_a': lambda: (_ci().get_num_children(5, 8), _ci().get_num_children(2, 4), a5.get_num_cells(6), _ci().get_num_children(-1, 2)),
        'counts_b': lambda: (_ci().get_num_children(3, 9), _ci().get_num_children(0, 3), _ci().get_num_children(7, 7)),
        # the curve-index functions are importable and used directly by callers: they are calls into the library too
        'hilbert_a': lambda: _hilbert_roundtrip((5, 'uw', 777), (9, 'wv', 201033)),
        'hilbert_b': lambda: _hilbert_roundtrip((5, 'uw', 123), (7, 'vu', 9001)),
    }


def _ci():
    from a5.core import cell_info
    return cell_info


def _hilbert_roundtrip(*cases):
    from a5.core import hilbert, tiling
    from a5.core.coordinate_transforms import face_to_ij
    out = []
    for h, o, S in cases:
        anchor = hilbert.s_to_anchor(S, h, o)
        c = tiling.get_pentagon_vertices(h, 0, anchor).get_center()
        out.append(hilbert.ij_to_s(face_to_ij((c[0] * 2 ** h, c[1] * 2 ** h)), h, o))
    return tuple(out)


def probe_values(k):
    """calls made after every explored schedule, single-threaded: an interleaving must not leave the library corrupted for later callers"""
    import a5
    return (tuple(a5.get_num_cells(r) for r in range(0, 31)), a5.cell_area(29), a5.cell_area(0),
            a5.cell_to_lonlat(k['c7']), a5.lonlat_to_cell(k['near'], 7), a5.cell_to_boundary(k['c4'], {'segments': 1}),
            a5.cell_to_children(k['c5']), a5.compact(list(k['sib'][:4])), a5.uncompact([k['c5']], 6), a5.get_res0_cells()[3])


GEO_A = ['lonlat_to_cell_r7_edge', 'cell_to_lonlat', 'boundary_seg2_edge', 'boundary_auto_r4', 'lonlat_to_cell_r29_centre_a']
GEO_B = ['lonlat_to_cell_r7_edge', 'cell_to_lonlat', 'boundary_seg2_edge', 'lonlat_to_cell_r6_mid', 'lonlat_to_cell_r29_centre_b']
INT_A = ['compact', 'uncompact', 'children_parent', 'scalars', 'scalars_b', 'uncompact_low', 'hilbert_a', 'counts_a']
INT_B = ['compact', 'scalars_c', 'uncompact_low', 'hilbert_b', 'counts_b', 'children_parent']
B_QUICK = GEO_B


def quick_pairs():
    """(A, B, warm): geometric x geometric (the calls are chosen in prepare() so that they share lazily filled cache slots, reflected ones
    included), integer x integer, and the two cross families; warm library for the two calls with the most shared state"""
    out = []
    for a in GEO_A:
        if a == 'lonlat_to_cell_r29_centre_a':
            # the long resolution-29 call is paired with the calls that share its triangle and its small-angle branches
            out.append((a, 'lonlat_to_cell_r29_centre_b', False))
            out.append((a, 'cell_to_lonlat', False))
            continue
        for b in ('lonlat_to_cell_r7_edge', 'cell_to_lonlat', 'boundary_seg2_edge', 'lonlat_to_cell_r6_mid'):
            out.append((a, b, False))
    for a in ('lonlat_to_cell_r7_edge', 'boundary_seg2_edge'):
        out.append((a, 'scalars_c', False))
        out.append((a, 'boundary_seg2_edge', True))
    for a in INT_A:
        for b in INT_B:
            out.append((a, b, False))
        out.append((a, 'lonlat_to_cell_r7_edge', False))
    out.append(('cell_to_lonlat_r29_centre', 'lonlat_to_cell_r29_centre_b', False))
    return out


def fill_solo(task):
    """pristine values of cell_to_lonlat / cell_to_boundary for every fill cell (one process; the values do not depend on the order - C17)"""
    import a5
    k = task
    return {c: (sched.call_value(lambda: a5.cell_to_lonlat(c)), sched.call_value(lambda: a5.cell_to_boundary(c, {'segments': 2}))) for c in k['fill']}


def fill_pair(task):
    """cache fill level n: the first n fill cells are used first, then A = cell_to_lonlat(cell n) is explored against B = cell_to_boundary(cell n+1)"""
    n, k, fvals, probe_val = task
    import a5
    prefix = os.path.dirname(os.path.realpath(a5.__file__)) + os.sep
    acc = common.Acc()
    cells = k['fill']
    for c in cells[:n]:
        a5.cell_to_lonlat(c)
    ca, cb = cells[n % len(cells)], cells[(n + 1) % len(cells)]
    import gc
    gc.collect()
    gc.freeze()
    gc.disable()
    ex = sched.Explorer(prefix, 'line')
    ex.after = lambda: sched.call_value(lambda: probe_values(k)) == probe_val
    if CAP is not None:
        ex.occ_total = ex.count_sites(lambda: a5.cell_to_lonlat(ca))
        ex.occ_cap = (3, 1)
    res = ex.explore(lambda: a5.cell_to_lonlat(ca), lambda: a5.cell_to_boundary(cb, {'segments': 2}))
    for kk, site, va, vb in res:
        acc.n['states'] += 1
        acc.n['transitions'] += 2
        case = {'fill': n, 'k': kk, 'site': list(site)}
        skey = f'c16:fill{n}:{site[0]}:{site[1]}:{site[2]}'
        if va == 'blocked':
            acc.n['blocked'] += 1
            continue
        probe = None
        if isinstance(vb, tuple) and len(vb) == 3 and vb[0] == 'with-probe':
            vb, probe = vb[1], vb[2]
        if va == 'crash' or va != fvals[ca][0] or vb != fvals[cb][1] or (probe is not None and probe != ('ok', True)):
            what = va[1] if isinstance(va, tuple) and va[0] == 'exc' else (vb[1] if isinstance(vb, tuple) and vb[0] == 'exc' else 'a value differs from the single-threaded one')
            acc.violation(skey, f'with {n} other triangles already cached: cell_to_lonlat({ca:#x}) preempted at {site[0]}:{site[2]} ({site[1]}) by cell_to_boundary({cb:#x}): {what}', case)
            continue
        acc.n['validated'] += 1
    acc.strata['cache_fill_levels'] += 1
    acc.n['fill_level_points'] += len(res)
    return acc


def solo(task):
    name, k = task
    if name == '<probe>':
        return name, sched.call_value(lambda: probe_values(k))
    return name, sched.call_value(build_menu(k)[name])


def pair(task):
    """one (A, B, temperature, granularity) exploration in a process forked from the pristine parent"""
    an, bn, warm, gran, k, solo_vals, only = task
    import a5
    prefix = os.path.dirname(os.path.realpath(a5.__file__)) + os.sep
    menu = build_menu(k)
    acc = common.Acc()
    if warm:
        for name in sorted(menu):
            menu[name]()
    import gc
    gc.collect()
    gc.freeze()          # fewer copy-on-write faults in the forked children
    gc.disable()
    ex = sched.Explorer(prefix, gran)
    want_probe = solo_vals['<probe>']
    ex.after = lambda: sched.call_value(lambda: probe_values(k)) == want_probe      # compared in the child: one boolean travels back
    if CAP is not None:
        ex.occ_total = ex.count_sites(menu[an])
        ex.occ_cap = CAP
    res = ex.explore(menu[an], menu[bn], only)
    temp = 'warm' if warm else 'cold'
    base = f'{an}|{bn}|{temp}|{gran}'
    if ex.solo_a != solo_vals[an]:
        acc.violation(f'c16:harness:{base}', f'A alone under the monitor returned a value different from the pristine single call ({temp})',
                      {'A': an, 'B': bn, 'warm': warm, 'gran': gran, 'k': 0})
    sites = set()
    bad = 0
    for kk, site, va, vb in res:
        acc.n['states'] += 1          # a state = (pair, preemption point)
        acc.n['transitions'] += 2     # preempt -> B completes -> A resumes
        sites.add(site[:2] + (site[2] if gran == 'line' else 0,))
        case = {'A': an, 'B': bn, 'warm': warm, 'gran': gran, 'k': kk, 'site': list(site)}
        skey = f'c16:{an}|{bn}|{temp}:{site[0]}:{site[1]}:{site[2] if gran == "line" else "instr"}'
        if va == 'blocked':
            acc.n['blocked'] += 1
            continue
        if va == 'crash':
            acc.violation(skey + ':crash', f'interpreter died when {bn} ran inside {an} at {site}', case)
            bad += 1
            continue
        if va != solo_vals[an]:
            what = 'raised ' + va[1] if va[0] == 'exc' else 'returned a different value'
            acc.violation(skey + ':A', f'{an} preempted at {site[0]}:{site[2]} ({site[1]}) by {bn}: {an} {what}', case)
            bad += 1
            continue
        probe = None
        if isinstance(vb, tuple) and len(vb) == 3 and vb[0] == 'with-probe':
            vb, probe = vb[1], vb[2]
        if vb != solo_vals[bn]:
            what = 'raised ' + vb[1] if vb[0] == 'exc' else 'returned a different value'
            acc.violation(skey + ':B', f'{bn} run inside {an} at {site[0]}:{site[2]} ({site[1]}): {bn} {what}', case)
            bad += 1
            continue
        if probe is not None and probe != ('ok', True):
            what = 'raised ' + probe[1] if probe[0] == 'exc' else 'returned different values'
            acc.violation(skey + ':after', f'after {bn} ran inside {an} at {site[0]}:{site[2]} ({site[1]}) both returned correct values, but later single-threaded calls {what}: the library state was corrupted', case)
            bad += 1
            continue
        acc.n['validated'] += 1
    acc.strata[f'{an}|{bn}'] += len(res)
    acc.n['nontrivial'] += len(sites)
    acc.n['bad_points'] += bad
    acc.n['points_skipped_by_occurrence_cap'] += ex.skipped
    acc.pair_info = (base, len(res), len(sites), bad)
    acc.sites = sites
    return acc


def pair2(task):
    """preemption bound 2 (A | B | A | B): A runs to its point i, B runs in a second thread to its point j and is parked, A completes, B completes"""
    an, bn, warm, capa, capb, k, solo_vals, only, only_j = task
    import a5
    prefix = os.path.dirname(os.path.realpath(a5.__file__)) + os.sep
    menu = build_menu(k)
    acc = common.Acc()
    if warm:
        for name in sorted(menu):
            menu[name]()
    import gc
    gc.collect()
    gc.freeze()
    gc.disable()
    ex = sched.Explorer2(prefix, b_cap=capb)
    want_probe = solo_vals['<probe>']
    ex.after = lambda: sched.call_value(lambda: probe_values(k)) == want_probe
    if capa is not None:
        ex.occ_total = ex.count_sites(menu[an])
        ex.occ_cap = capa
    res = ex.explore(menu[an], menu[bn], only, only_j)
    temp = 'warm' if warm else 'cold'
    base = f'{an}|{bn}|{temp}|2p'
    if ex.solo_a != solo_vals[an]:
        acc.violation(f'c16:harness:{base}', f'A alone under the monitor returned a value different from the pristine single call ({temp})',
                      {'A': an, 'B': bn, 'warm': warm, 'two': True, 'k': 0, 'j': 0})
    bad = 0
    sites = set()
    for i, site, j, bsite, va, vb in res:
        acc.n['states'] += 1          # a state = (pair, point of A, point of B)
        acc.n['transitions'] += 4     # A -> B -> A -> B
        acc.n['two_preemption_schedules'] += 1
        case = {'A': an, 'B': bn, 'warm': warm, 'two': True, 'k': i, 'j': j, 'site': list(site), 'bsite': list(bsite) if bsite else None,
                'capa': list(capa) if capa else None, 'capb': (capb if isinstance(capb, str) else list(capb)) if capb else None}
        if va == 'blocked':
            acc.n['blocked'] += 1
            continue
        sites.add((site, bsite))
        skey = f'c16:2p:{an}|{bn}|{temp}:{site[0]}:{site[1]}:{site[2]}/{bsite[0]}:{bsite[1]}:{bsite[2]}'
        where = f'{an} suspended at {site[0]}:{site[2]} ({site[1]}), {bn} run up to {bsite[0]}:{bsite[2]} ({bsite[1]}) and suspended, {an} completed, {bn} completed'
        if va == 'crash':
            acc.violation(skey + ':crash', f'interpreter died: {where}', case)
            bad += 1
            continue
        if va != solo_vals[an]:
            what = 'raised ' + va[1] if va[0] == 'exc' else 'returned a different value'
            acc.violation(skey + ':A', f'{where}: {an} {what}', case)
            bad += 1
            continue
        probe = None
        if isinstance(vb, tuple) and len(vb) == 3 and vb[0] == 'with-probe':
            vb, probe = vb[1], vb[2]
        if isinstance(vb, tuple) and len(vb) == 2 and vb[0] == 'not-parked':
            acc.n['b_not_parked'] += 1      # B took another path than in its sequence run and never reached event j: the schedule degenerated to one preemption
            vb = vb[1]
        if vb != solo_vals[bn]:
            what = 'raised ' + vb[1] if vb[0] == 'exc' else 'returned a different value'
            acc.violation(skey + ':B', f'{where}: {bn} {what}', case)
            bad += 1
            continue
        if probe is not None and probe != ('ok', True):
            what = 'raised ' + probe[1] if probe[0] == 'exc' else 'returned different values'
            acc.violation(skey + ':after', f'{where}: both returned correct values, but later single-threaded calls {what}', case)
            bad += 1
            continue
        acc.n['validated'] += 1
    acc.strata[f'2p:{an}|{bn}'] += len(res)
    acc.n['bad_points'] += bad
    acc.n['two_preemption_site_pairs'] += len(sites)
    acc.n['two_preemption_skipped_by_caps'] += ex.pairs_skipped_by_b_cap
    acc.pair_info = (base, len(res), len(sites), bad)
    acc.sites = set()
    return acc


def two_preemption_tasks(tier, k, solo_vals):
    """(A, B, warm, cap on A's occurrences, cap on B's occurrences, residue classes)"""
    if tier == 'quick':
        plan = [('scalars', 'scalars_b', False, None, None, 2),
                ('counts_a', 'counts_b', False, None, None, 1),
                ('uncompact', 'uncompact_low', False, (1, 0), (1, 0), 2),
                ('compact', 'compact', False, (1, 0), (1, 0), 2),
                ('boundary_closed_seg1', 'boundary_far_seg1', True, (1, 0), 'func', 16)]
    else:
        plan = [('scalars', 'scalars_b', False, None, None, 2),
                ('scalars_b', 'scalars', False, None, None, 2),
                ('scalars', 'scalars_c', False, None, None, 1),
                ('counts_a', 'counts_b', False, None, None, 1),
                ('counts_b', 'counts_a', False, None, None, 1),
                ('uncompact', 'counts_b', False, (2, 1), None, 4),
                ('uncompact', 'uncompact_low', False, (2, 1), (2, 1), 8),
                ('uncompact_low', 'uncompact', False, (2, 1), (2, 1), 8),
                ('compact', 'compact', False, (2, 1), (2, 1), 8),
                ('compact', 'uncompact', False, (1, 0), (1, 0), 4),
                ('children_parent', 'uncompact_low', False, (1, 0), (1, 0), 4),
                ('hilbert_a', 'hilbert_b', False, (1, 0), (1, 0), 16),
                ('cell_to_lonlat', 'cell_to_lonlat_r4', True, (2, 1), (2, 1), 32),
                ('cell_to_lonlat', 'cell_to_lonlat_r4', False, (1, 0), (1, 0), 32),
                ('cell_to_lonlat_r4', 'cell_to_lonlat', False, (1, 0), (1, 0), 32),
                ('cell_to_lonlat', 'boundary_closed_seg1', False, (1, 0), (1, 0), 32),
                ('boundary_closed_seg1', 'cell_to_lonlat', False, (1, 0), (1, 0), 32),
                ('boundary_closed_seg1', 'boundary_far_seg1', True, (1, 0), (1, 0), 32),
                ('boundary_far_seg1', 'boundary_closed_seg1', False, (1, 0), (1, 0), 32),
                ('cell_to_lonlat_r29_centre', 'cell_to_lonlat', True, (1, 0), (1, 0), 32)]
    tasks = []
    for an, bn, warm, ca, cb, m in plan:
        for i in range(m):
            tasks.append((an, bn, warm, ca, cb, k, solo_vals, (m, i) if m > 1 else None, None))
    return tasks


def run(tier, t0, only_pairs=None):
    global CAP
    CAP = (6, 2) if tier == 'quick' else None
    acc = common.Acc()
    # NOTE: this process never calls into a5 (it only imports it), so every forked task starts from a pristine library.
    def one(func, arg):
        (_, res), = common.fresh_map(func, [arg], 1)
        if isinstance(res, Exception):
            raise res
        return res

    def many(func, args):
        out = [None] * len(args)
        for i, res in common.fresh_map(func, args):
            if isinstance(res, Exception):
                raise res
            out[i] = res
        return out

    import time as _t
    _t0 = _t.time()
    try:
        k = one(prepare, None)
    except Exception as e:
        if not common.raised_inside_library(e):
            raise
        acc.violation(f'c16:prepare:{common.library_error_line(e)[:60]}', f'a public call raised {common.library_error_line(e)} while the call menu was being derived single-threaded with the library itself',
                      {'A': '<prepare>', 'B': '<prepare>', 'warm': False, 'gran': 'line', 'k': 0, 'prepare': True})
        return common.finish(PID, LEVEL, tier, acc, t0, 'call menu construction failed; nothing else was explored', [], exhaustive=False)
    acc.notes.append('phase prepare %.1fs' % (_t.time() - _t0))
    names = sorted(build_menu(k))
    solo_vals = dict(many(solo, [(n, k) for n in names + ['<probe>']]))
    solo2 = dict(many(solo, [(n, k) for n in names + ['<probe>']]))
    for n in names + ['<probe>']:
        if solo_vals[n] != solo2[n]:
            raise RuntimeError(f'pristine single call {n} is not deterministic')
        if solo_vals[n][0] != 'ok':
            acc.violation(f'c16:solo-raises:{n}', f'{n} raises when run alone: {solo_vals[n][1]}', {'A': n, 'B': n, 'warm': False, 'gran': 'line', 'k': 0})
    acc.notes.append('phase solo %.1fs' % (_t.time() - _t0))
    tasks = []
    SPLIT = {'lonlat_to_cell_r2': 4, 'lonlat_to_cell_r7_edge': 4, 'boundary_seg2_edge': 2, 'boundary_auto_r4': 2, 'lonlat_to_cell_r29_centre_a': 2}
    if tier == 'quick':
        for an, bn, warm in quick_pairs():
            m = SPLIT.get(an, 1)
            for i in range(m):      # long calls: the preemption points are split into residue classes explored by separate processes
                tasks.append((an, bn, warm, 'line', k, solo_vals, (m, i) if m > 1 else None))
        A, B = sorted({t[0] for t in tasks}), sorted({t[1] for t in tasks})
    else:
        A, B = names, GEO_B + INT_B + ['cell_to_lonlat_r29_centre', 'children_parent', 'lonlat_to_cell_r2']
        for an in A:
            for bn in B:
                for warm in (False, True):
                    m = SPLIT.get(an, 1)
                    for i in range(m):
                        tasks.append((an, bn, warm, 'line', k, solo_vals, (m, i) if m > 1 else None))
    if tier == 'thorough':
        short = ['cell_to_lonlat', 'scalars', 'scalars_b', 'uncompact_low', 'children_parent', 'uncompact', 'compact', 'cell_to_lonlat_r4', 'cell_to_lonlat_r29_centre', 'hilbert_a']
        for an in short:
            for bn in B_QUICK + ['scalars_c']:
                for i in range(4):      # bytecode-instruction granularity: ~5x more points than lines, split into 4 residue classes
                    tasks.append((an, bn, False, 'instruction', k, solo_vals, (4, i)))
    tasks = common.rotate(tasks, common.seed())
    cost = {'lonlat_to_cell_r2': 9, 'lonlat_to_cell_r7_edge': 8, 'boundary_seg2_edge': 7, 'boundary_auto_r4': 6, 'lonlat_to_cell_r29_centre_a': 6, 'lonlat_to_cell_r12': 8}
    tasks.sort(key=lambda t: -cost.get(t[0], 1))          # longest explorations first (load balance); stable, so the seed rotation survives inside a class
    allsites = set()
    for _, part in common.fresh_map(pair, tasks, timeout=3600):
        if isinstance(part, Exception):
            raise part
        allsites |= part.sites
        if part.pair_info[3]:
            acc.notes.append('%s: %d points, %d sites, %d bad' % part.pair_info)
        acc.merge(part)
    # ---- cache fill levels: the same short pair explored after n = 0, 8, 16, .. (thorough: every n) other triangles were cached
    fvals = one(fill_solo, k)
    nfill = len(k['fill'])
    levels = sorted(set(range(0, nfill, 8)) | {nfill - 1} | {x + d for x in (10, 16, 20, 32, 50, 64, 100, 128, 200) for d in (-1, 0, 1)}) if tier == 'quick' else list(range(0, nfill))
    for _, part in common.fresh_map(fill_pair, [(n, k, fvals, solo_vals['<probe>']) for n in levels if n < nfill]):
        if isinstance(part, Exception):
            raise part
        acc.merge(part)
    acc.notes.append('phase explore %.1fs' % (_t.time() - _t0))
    # ---- preemption bound 2: A | B | A | B on the short calls
    t2 = two_preemption_tasks(tier, k, solo_vals)
    for _, part in common.fresh_map(pair2, t2, timeout=3600):
        if isinstance(part, Exception):
            raise part
        if part.pair_info[3]:
            acc.notes.append('%s: %d schedules, %d site pairs, %d bad' % part.pair_info)
        acc.merge(part)
    acc.notes.append('phase two-preemption %.1fs' % (_t.time() - _t0))
    # determinism: one recorded point explored twice more, in two fresh processes, must give the same observation
    probe = ('lonlat_to_cell_r7_edge', 'boundary_seg2_edge', False, 'line', k, solo_vals, [5, 60, 137])
    r1 = one(pair, probe)
    r2 = one(pair, probe)
    if (r1.n['validated'], r1.n['states'], sorted(r1.vmap)) != (r2.n['validated'], r2.n['states'], sorted(r2.vmap)) or r1.n['states'] < 1:
        raise RuntimeError('replaying one schedule point twice gave different observations: the explorer does not own all nondeterminism')
    acc.notes.append('phase determinism %.1fs' % (_t.time() - _t0))
    acc.n['distinct_preemption_sites'] = len(allsites)
    acc.sample({'A': 'lonlat_to_cell_r7_edge', 'B': 'boundary_seg2_edge', 'schedule': 'A runs to its k-th line event inside a5/, B runs to completion, A resumes', 'k': 137})
    acc.sample({'menu_constants': {kk: (hex(v) if isinstance(v, int) else v) for kk, v in k.items() if kk not in ('sib', 'shared_slots')}})
    acc.sample({'shared_cache_slots [all, reflected] per geometric pair': k.get('shared_slots')})
    acc.sample({'some_sites': sorted(allsites)[:5]})
    rule = (f'{len(tasks)} explorations over {len(A)} calls A and {len(B)} calls B (cold and warm library): every line event of A inside the a5 package is a preemption point at which B runs to completion in a real second thread '
            '(thorough: every menu call as A x 12 calls B, cold and warm, every occurrence, plus every bytecode instruction for the short calls); after every schedule a fixed set of probe calls is made single-threaded; a short pair is also explored at cache fill levels 0, 8, 16, .. and every power of two / round number +-1 (thorough: every level 0..239); preemption bound 2 on the short calls: A suspended at i, B suspended at j, A completes, B completes, for every (i, j) within the stated occurrence caps; a state is (pair, temperature, point[, point of B]); non-trivial counts distinct (file, function, line) sites per pair')
    return common.finish(PID, LEVEL, tier, acc, t0, rule, [
        'one preemption (A suspended at a point, a complete B, A resumes; both role assignments) for every pair; preemption bound 2 (A | B | A | B: B is itself suspended at its point j while A completes) for the short calls listed in two_preemption_tasks (counters.two_preemption_schedules), with every point of A and B for the scalar calls and the first (thorough: first 2 / last 1) occurrence of every line site otherwise (quick, geometric pair - two boundary calls on cells of different faces: B is suspended at the first line of every function it runs, once per distinct calling function); three or more preemptions and free-threaded memory effects are not explored',
        'quick tier: of the dynamic occurrences of one line site (same file, function, line) inside A only the first 6 and the last 2 are preemption points (counters.points_skipped_by_occurrence_cap); the thorough tier explores every occurrence',
        'values compared bit-for-bit (floats by hex) with the same call run alone in a process forked from a pristine import',
        'a child that does not finish within 10 s counts as blocked (a schedule a lock would forbid), never as a violation',
    ], extra={'explorations': len(tasks), 'granularity': 'line' + (' + instruction (short calls)' if tier == 'thorough' else ''),
              'occurrence_cap_first_last': list(CAP) if CAP else None}, exhaustive=(tier == 'thorough'))


def replay(case):
    if 'fill' in case:
        (_, k), = common.fresh_map(prepare, [None], 1)
        (_, fvals), = common.fresh_map(fill_solo, [k], 1)
        (_, pv), = common.fresh_map(solo, [('<probe>', k)], 1)
        (_, part), = common.fresh_map(fill_pair, [(case['fill'], k, fvals, pv[1])], 1)
        return [(kk, w) for kk, w, _ in part.violations]

    def one(func, arg):
        (_, res), = common.fresh_map(func, [arg], 1)
        if isinstance(res, Exception):
            raise res
        return res
    try:
        k = one(prepare, None)
    except Exception as e:
        if not common.raised_inside_library(e):
            raise
        return [('c16:prepare', common.library_error_line(e))]
    if case.get('prepare'):
        return []
    names = sorted(build_menu(k))
    solo_vals = dict(one(solo, (n, k)) for n in names + ['<probe>'])
    if case.get('two'):
        part = one(pair2, (case['A'], case['B'], case['warm'], tuple(case['capa']) if case.get('capa') else None, (case['capb'] if isinstance(case.get('capb'), str) else tuple(case['capb'])) if case.get('capb') else None,
                           k, solo_vals, [case['k']] if case['k'] else None, [case['j']] if case['j'] else None))
        return [(kk, w) for kk, w, _ in part.violations]
    part = one(pair, (case['A'], case['B'], case['warm'], case['gran'], k, solo_vals, [case['k']] if case['k'] else None))
    return [(kk, w) for kk, w, _ in part.violations]
