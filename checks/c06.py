"""C06 - parent/children form a consistent tree over ids (E1 hierarchy explorer).

States: cells.  Transitions: every (cell, target resolution) parent edge and child fan-out, run on the real
cell_to_parent / cell_to_children and compared with the tuple-path reference tree.
"""
from vf import common, refmodel as rm, seeds

PID = 'C06'
LEVEL = 'model_checking'
MAXR = 29


def _lib():
    import a5
    return a5


def rank(path):
    """position of a cell of resolution >= 1 in the numerically sorted id list of its level"""
    r = rm.res(path)
    return (5 * path[0] + path[1]) * 4 ** (r - 1) + rm.s_of(path)


def check_cell(acc, a5, path, depth, errors=True):
    r = rm.res(path)
    c = rm.encode(path)
    case = {'path': list(path), 'depth': depth}
    acc.n['states'] += 1
    pk = '/'.join(map(str, path)) or 'world'
    # ---- parents at every coarser level, composition
    prev = None
    for a in range(r, -2, -1):
        try:
            got = a5.cell_to_parent(c, a)
        except Exception as e:
            acc.violation(f'parent-raises:{pk}:a={a}', f'cell_to_parent({c:#x}, {a}) raised {e!r}', case)
            break
        acc.n['transitions'] += 1
        want = rm.encode(path[:a + 1])
        if got != want:
            acc.violation(f'parent-mismatch:{pk}:a={a}', f'cell_to_parent({c:#x}, {a}) = {got:#x}, tree says {want:#x}', case)
            break
        if prev is not None:
            try:
                comp = a5.cell_to_parent(prev, a)
            except Exception as e:
                acc.violation(f'parent-compose-raises:{pk}:a={a}', f'cell_to_parent({prev:#x}, {a}) raised {e!r}', case)
                break
            if comp != got:
                acc.violation(f'parent-compose:{pk}:a={a}', f'parent of parent {comp:#x} != parent at level {a} {got:#x}', case)
                break
        acc.n['validated'] += 1
        prev = got
    if r >= 0:
        try:
            if a5.cell_to_parent(c) != rm.encode(path[:-1]):
                acc.violation(f'parent-default:{pk}', 'cell_to_parent(c) without a level is not the immediate parent', case)
        except Exception as e:
            acc.violation(f'parent-default-raises:{pk}', f'cell_to_parent({c:#x}) raised {e!r}', case)
    # ---- children
    held = []        # (b, live list, snapshot): lists handed out earlier must not be changed by later calls
    for b in [None] + list(range(r, min(r + depth, MAXR) + 1)):
        bb = r + 1 if b is None else b
        if bb > MAXR:
            continue
        try:
            kids = a5.cell_to_children(c) if b is None else a5.cell_to_children(c, b)
        except Exception as e:
            acc.violation(f'children-raises:{pk}:b={b}', f'cell_to_children({c:#x}, {b}) raised {e!r}', case)
            continue
        acc.n['transitions'] += 1
        held.append((b, kids, list(kids)))
        want = [rm.encode(p) for p in rm.descendants(path, bb)]
        if len(kids) != len(set(kids)):
            acc.violation(f'children-repeat:{pk}:b={b}', f'cell_to_children({c:#x}, {b}) repeats a cell', case)
            continue
        if set(kids) != set(want):
            acc.violation(f'children-mismatch:{pk}:b={b}', f'cell_to_children({c:#x}, {b}) has {len(kids)} cells, differs from the {len(want)} descendants in the tree', case)
            continue
        bad = None
        for kpath, k in zip(rm.descendants(path, bb), want):
            try:
                if a5.cell_to_parent(k, r) != c:
                    bad = k
                    break
            except Exception as e:
                bad = k
                break
        acc.n['transitions'] += len(want)
        if bad is not None:
            acc.violation(f'child-parent:{pk}:b={b}', f'child {bad:#x} of {c:#x} does not map back by cell_to_parent(., {r})', case)
            continue
        if r >= 1 and bb > r:
            ranks = sorted(rank(rm.decode(k)) for k in kids)
            if ranks[-1] - ranks[0] != len(kids) - 1:
                acc.violation(f'children-not-contiguous:{pk}:b={b}', 'descendants are not a contiguous run of the level', case)
                continue
            # numeric order == rank order inside the run
            sk = sorted(kids)
            if [rank(rm.decode(k)) for k in sk] != ranks:
                acc.violation(f'children-order:{pk}:b={b}', 'numeric id order disagrees with the level order', case)
                continue
        acc.n['validated'] += 1 + len(want)
    for b, live, snap in held:
        if live != snap:
            acc.violation(f'children-aliased:{pk}:b={b}', f'the list returned by cell_to_children({c:#x}, {b}) was changed in place by a later call', case)
            break
    # a caller may do what it likes with a returned list: a second identical call must be unaffected
    if r >= 0 and r < MAXR:
        try:
            first = a5.cell_to_children(c)
            snap = list(first)
            other = a5.cell_to_children(rm.encode(path[:-1] + ((path[-1] + 1) % rm.n_children(path[:-1]),))) if len(path) >= 1 else None
            if first != snap:
                acc.violation(f'children-aliased:{pk}:sibling', f'the list returned by cell_to_children({c:#x}) was overwritten by the same call on a sibling', case)
            first.reverse()
            first.append(0)
            again = a5.cell_to_children(c)
            acc.n['transitions'] += 2
            if again != snap:
                acc.violation(f'children-cached:{pk}', f'after the caller modified the list returned by cell_to_children({c:#x}), the same call returns a different list', case)
            else:
                acc.n['validated'] += 2
        except Exception as e:
            acc.violation(f'children-repeat-raises:{pk}', f'repeated cell_to_children({c:#x}) raised {e!r}', case)
    # ---- out-of-order requests raise
    if errors:
        for a in sorted({r + 1, r + 2, MAXR} - set(range(-1, r + 1))):
            if a > MAXR:
                continue
            acc.n['transitions'] += 1
            try:
                got = a5.cell_to_parent(c, a)
            except ValueError:
                acc.n['validated'] += 1
            except Exception as e:
                acc.violation(f'parent-finer-wrong-exc:{pk}:a={a}', f'raised {e!r}, not ValueError', case)
            else:
                acc.violation(f'parent-finer-returns:{pk}:a={a}', f'cell_to_parent({c:#x}, {a}) with a > resolution returned {got!r}', case)
        for a in (-2, -3):
            acc.n['transitions'] += 1
            try:
                got = a5.cell_to_parent(c, a)
            except ValueError:
                acc.n['validated'] += 1
            except Exception as e:
                acc.violation(f'parent-below-wrong-exc:{pk}:a={a}', f'raised {e!r}, not ValueError', case)
            else:
                acc.violation(f'parent-below-returns:{pk}:a={a}', f'cell_to_parent({c:#x}, {a}) returned {got!r}', case)
        for b in sorted({r - 1, r - 2, -1, 0} & set(range(-1, r))):
            acc.n['transitions'] += 1
            try:
                got = a5.cell_to_children(c, b)
            except ValueError:
                acc.n['validated'] += 1
            except Exception as e:
                acc.violation(f'children-coarser-wrong-exc:{pk}:b={b}', f'raised {e!r}, not ValueError', case)
            else:
                acc.violation(f'children-coarser-returns:{pk}:b={b}', f'cell_to_children({c:#x}, {b}) with b < resolution returned {len(got)} cells', case)


def work(task):
    kind, spec, depth = task
    a5 = _lib()
    acc = common.Acc()
    if kind == 'subtree':
        root, to_res = spec
        for r in range(rm.res(root), to_res + 1):
            for p in rm.descendants(root, r):
                check_cell(acc, a5, p, depth + (1 if r <= 3 else 0))
                acc.strata[f'exhaustive_r{r:02d}'] += 1
    else:
        f, r, level = spec
        for n in range(5):
            for digits in seeds.g1_patterns(r - 1, level):
                check_cell(acc, a5, (f, n) + digits, depth)
                acc.strata[f'deep_r{r:02d}'] += 1
    acc.n['nontrivial'] = acc.n['states']
    return acc


def run(tier, t0):
    a5 = _lib()
    acc = common.Acc()
    R = 5 if tier == 'quick' else 6
    depth = 3
    check_cell(acc, a5, (), 4)
    for f in range(12):
        check_cell(acc, a5, (f,), 4)
    tasks = [('subtree', ((f, n), R), depth) for f in range(12) for n in range(5)]
    level = 'single' if tier == 'quick' else 'pairs'
    tasks += [('deep', (f, r, level), depth) for r in range(R + 1, 30) for f in range(12)]
    tasks = common.rotate(tasks, common.seed())
    common.pmap_merge(work, tasks, acc)
    acc.sample({'cell': hex(rm.encode((7, 3, 1, 2))), 'path(face,slot,digits)': [7, 3, 1, 2], 'checked': 'parents at -1..3, children at 3..6, error cases'})
    acc.sample({'cell': hex(rm.encode((11, 4) + (3,) * 28)), 'resolution': 29})
    rule = (f'every cell of resolutions -1..{R} and G1[{level}] digit-pattern seeds of every (face, segment) at resolutions {R + 1}..29; per cell every parent '
            f'level -1..res and every child level res..res+{depth} (capped at 29), defaults, and out-of-order requests; each state is a distinct cell')
    return common.finish(PID, LEVEL, tier, acc, t0, rule, [
        'reference tree = tuple paths (vf/refmodel.py); ids of tree nodes come from the reference codec validated by C05',
        'child levels beyond res+3 (res+4 for res<=3) are covered by composition only',
    ], extra={'exhaustive_to_resolution': R}, exhaustive=True)


def replay(case):
    acc = common.Acc()
    check_cell(acc, _lib(), tuple(case['path']), case.get('depth', 3))
    return [(k, w) for k, w, _ in acc.violations]
