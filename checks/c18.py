"""C18 - curve index <-> lattice position is a bijection for all orientations and levels.

States: (orientation, level, S).  Transitions: index -> anchor -> pentagon -> centre -> IJ -> index (the real functions);
prefix edges S -> S >> 2j.
"""
import math
from vf import common, seeds

PID = 'C18'
LEVEL = 'model_checking'
ORIENTATIONS = ('uv', 'vu', 'uw', 'wu', 'vw', 'wv')


def _lib():
    from a5.core import hilbert, tiling
    from a5.core.coordinate_transforms import face_to_ij
    from a5.core import pentagon as cpent
    return hilbert, tiling, face_to_ij, cpent


def shoelace(vs):
    # relative to the first vertex: no cancellation against the absolute position
    a = 0.0
    n = len(vs)
    ox, oy = vs[0]
    for i in range(n):
        x1, y1 = vs[i][0] - ox, vs[i][1] - oy
        x2, y2 = vs[(i + 1) % n][0] - ox, vs[(i + 1) % n][1] - oy
        a += x1 * y2 - x2 * y1
    return abs(a) / 2


def clip(subject, clipper):
    """Sutherland-Hodgman: intersection of convex polygon `subject` with convex counter-clockwise polygon `clipper`"""
    out = list(subject)
    n = len(clipper)
    for i in range(n):
        if not out:
            break
        ax, ay = clipper[i]
        bx, by = clipper[(i + 1) % n]
        inp, out = out, []
        for j in range(len(inp)):
            px, py = inp[j]
            qx, qy = inp[(j + 1) % len(inp)]
            sp_ = (bx - ax) * (py - ay) - (by - ay) * (px - ax)
            sq_ = (bx - ax) * (qy - ay) - (by - ay) * (qx - ax)
            if sp_ >= 0:
                out.append((px, py))
            if (sp_ >= 0) != (sq_ >= 0):
                t = sp_ / (sp_ - sq_)
                out.append((px + t * (qx - px), py + t * (qy - py)))
    return out


def ccw(vs):
    a = 0.0
    for i in range(len(vs)):
        x1, y1 = vs[i]
        x2, y2 = vs[(i + 1) % len(vs)]
        a += x1 * y2 - x2 * y1
    return list(vs) if a >= 0 else list(reversed(vs))


_TRI_AREA = None


def tri_area():
    global _TRI_AREA
    if _TRI_AREA is None:
        hilbert, tiling, face_to_ij, cpent = _lib()
        _TRI_AREA = shoelace([cpent.u, cpent.v, cpent.w])
    return _TRI_AREA


def type_like(tp, values):
    return list(values) if tp is list else tuple(values)


def centre_of(lib, S, h, o):
    hilbert, tiling, face_to_ij, cpent = lib
    anchor = hilbert.s_to_anchor(S, h, o)
    pent = tiling.get_pentagon_vertices(h, 0, anchor)
    vs = pent.get_vertices()
    cx = sum(v[0] for v in vs) / len(vs)
    cy = sum(v[1] for v in vs) / len(vs)
    return anchor, vs, (cx, cy)


def check_index(acc, lib, S, h, o, keys=None, prefix=True, area_sum=None):
    hilbert, tiling, face_to_ij, cpent = lib
    acc.n['states'] += 1
    case = {'S': S, 'h': h, 'o': o}
    k = f'c18:{o}:h={h}:S={S}'
    try:
        anchor, vs, c = centre_of(lib, S, h, o)
        sc = 2 ** h
        ij = face_to_ij((c[0] * sc, c[1] * sc))
        back = hilbert.ij_to_s(ij, h, o)
        as_list = [ij[0], ij[1]]
        back_l = hilbert.ij_to_s(as_list, h, o)
        if as_list != [ij[0], ij[1]] or back_l != back:
            acc.violation(k + ':argument', f'ij_to_s modified the list it was given ({[ij[0], ij[1]]} -> {as_list}) or answered differently for a list ({back_l} vs {back})', case)
            return
        if S % 7 == 3 or S < 4:
            # the index may also be given in its decimal text form (s: Union[int, str]); same lattice position required
            a2 = hilbert.s_to_anchor(str(S), h, o)
            if tuple(a2.offset) != tuple(anchor.offset) or tuple(a2.flips) != tuple(anchor.flips) or a2.k != anchor.k:
                acc.violation(k + ':text-index', f's_to_anchor({str(S)!r}) differs from s_to_anchor({S})', case)
                return
        if S % 5 == 1 or S < 4:
            # a caller owns the anchor it was handed: it is edited (in place where it is a list, and by assignment), then the same index is
            # converted again and must give the original lattice position
            orig = (anchor.k, tuple(anchor.offset), tuple(anchor.flips))
            orig_types = (type(anchor.offset), type(anchor.flips))
            try:
                if isinstance(anchor.offset, list):
                    anchor.offset[0] += 1
                    anchor.offset[1] -= 2
                if isinstance(anchor.flips, list):
                    anchor.flips[0] = -anchor.flips[0]
            except Exception:
                pass
            anchor.offset = (orig[1][0] + 3, orig[1][1] - 1)
            anchor.flips = (-orig[2][0], -orig[2][1])
            anchor.k = (orig[0] + 1) % 4 if isinstance(orig[0], int) else orig[0]
            a3 = hilbert.s_to_anchor(S, h, o)
            got3 = (a3.k, tuple(a3.offset), tuple(a3.flips))          # read before this check's own copy is put back (a3 may BE that object)
            acc.n['repeated_after_caller_edit'] += 1
            # put this check's own copy back (it is used below for the distinctness key)
            anchor.k, anchor.offset, anchor.flips = orig[0], type_like(orig_types[0], orig[1]), type_like(orig_types[1], orig[2])
            if got3 != orig:
                acc.violation(k + ':anchor-shared', f's_to_anchor({S}, {h}, {o!r}) returns {got3} after the caller edited the anchor returned by the previous identical call (was {orig})', case)
                return
    except Exception as e:
        acc.violation(k + ':raises', f'raised {e!r}', case)
        return
    acc.n['transitions'] += 1
    if back != S:
        acc.violation(k + ':roundtrip', f'index {S} -> centre {c} -> index {back}', case)
        return
    if len(vs) != 5:
        acc.violation(k + ':shape', f'{len(vs)} vertices', case)
        return
    area = shoelace(vs)
    want = tri_area() / 4 ** h
    # vertex coordinates are O(1) doubles (2e-16 absolute), i.e. 2^h * 2e-16 relative to the cell size
    acc.maximum('area_rel_err_over_allowance', abs(area / want - 1) / (1e-9 + 2 ** h * 4e-15), [o, h, S])
    if abs(area / want - 1) > 1e-9 + 2 ** h * 4e-15:
        acc.violation(k + ':area', f'pentagon area {area!r}, expected {want!r}', case)
        return
    if area_sum is not None:
        area_sum[0] += area
    if keys is not None:
        key = (round(c[0] * sc * 1e6), round(c[1] * sc * 1e6))
        akey = (anchor.offset[0] * 2, anchor.offset[1] * 2, anchor.flips, anchor.k)
        if key in keys[0] or akey in keys[1]:
            acc.violation(k + ':duplicate', f'index {S} has the same cell as another index of level {h}', case)
            return
        keys[0].add(key)
        keys[1].add(akey)
    acc.n['validated'] += 1
    if prefix:
        w = math.sqrt(tri_area())
        for j in (1, 2, 3):
            if h - j < 1:
                break
            try:
                _, pvs, pc = centre_of(lib, S >> (2 * j), h - j, o)
                if j == 1:
                    # descent, sharply: a cell overlaps the cell named by its index without the last digit
                    ox, oy = vs[0]
                    sc2 = 2.0 ** h          # work in units of the child cell, relative to one of its corners (no cancellation)
                    child = ccw([((x - ox) * sc2, (y - oy) * sc2) for x, y in vs])
                    par = ccw([((x - ox) * sc2, (y - oy) * sc2) for x, y in pvs])
                    inter = clip(child, par)
                    frac = shoelace(inter) / shoelace(child) if len(inter) >= 3 else 0.0
                    acc.maximum('neg_min_overlap_with_prefix_cell', -round(frac, 4), [o, h, S])
                    if frac < 0.01:
                        acc.violation(k + ':descent', f'the cell of index {S} (level {h}, {o}) does not overlap the cell of its prefix {S >> 2} (shared area {frac:.4f} of the child)', case)
                        return
            except Exception as e:
                acc.violation(k + f':prefix-raises:j={j}', f'raised {e!r}', case)
                return
            acc.n['transitions'] += 1
            d = math.hypot(c[0] - pc[0], c[1] - pc[1]) / (w / 2 ** (h - j))
            acc.maximum(f'prefix_distance_j{j}_in_ancestor_widths', round(d, 6), [o, h, S])
            if d > 1.5:
                acc.violation(k + f':prefix:j={j}', f'centre is {d:.3f} widths from the level-{h - j} cell of its first digits', case)
                return
            acc.n['validated'] += 1


def work_exhaustive(task):
    o, h, lo, hi = task
    lib = _lib()
    acc = common.Acc()
    keys = (set(), set())
    area_sum = [0.0]
    for S in range(lo, hi):
        check_index(acc, lib, S, h, o, keys, True, area_sum)
    acc.parts = (o, h, hi - lo, len(keys[0]), area_sum[0], keys[0] if hi - lo < 4 ** h else None)
    acc.strata[f'exhaustive_h{h:02d}'] += hi - lo
    acc.n['nontrivial'] += len(keys[0])
    return acc


def work_interleaved(task):
    """the same indices visited orientation-innermost (uv, vu, uw, wu, vw, wv and back for ONE (level, S) before the next S): a mapping that
    remembers anything about the previous call (e.g. a memo that forgets part of the orientation) answers differently in this order"""
    h, lo, hi = task
    lib = _lib()
    acc = common.Acc()
    order = list(ORIENTATIONS) + list(reversed(ORIENTATIONS)) + ['uv', 'wv', 'uv', 'vu', 'vw', 'vu', 'uw', 'wu', 'uw']
    for S in range(lo, hi):
        for o in order:
            check_index(acc, lib, S, h, o, None, False)
    acc.strata[f'interleaved_h{h:02d}'] += (hi - lo) * len(order)
    acc.n['nontrivial'] += hi - lo
    return acc


def work_interleaved_deep(task):
    h, width = task
    lib = _lib()
    acc = common.Acc()
    order = list(ORIENTATIONS) + list(reversed(ORIENTATIONS)) + ['uv', 'wv', 'uv', 'vu', 'vw', 'vu', 'uw', 'wu', 'uw']
    seen = set()
    for d in seeds.g1_patterns(h, 'single'):
        S = seeds.digits_to_s(d)
        if S in seen:
            continue
        seen.add(S)
        for o in order:
            check_index(acc, lib, S, h, o, None, False)
    acc.strata[f'interleaved_h{h:02d}'] += len(seen) * len(order)
    return acc


def work_deep(task):
    o, h, width = task
    lib = _lib()
    acc = common.Acc()
    keys = (set(), set())
    pats = seeds.g1_windows(h, width) + seeds.g1_patterns(h, 'single')
    seen = set()
    for d in pats:
        S = seeds.digits_to_s(d)
        if S in seen:
            continue
        seen.add(S)
        check_index(acc, lib, S, h, o, keys, True)
    acc.strata[f'deep_h{h:02d}'] += len(seen)
    acc.n['nontrivial'] += len(keys[0])
    return acc


def run(tier, t0):
    acc = common.Acc()
    H = 7 if tier == 'quick' else 10
    tasks = []
    for o in ORIENTATIONS:
        for h in range(1, H + 1):
            n = 4 ** h
            step = max(n // 4, 1) if h >= 7 else n
            for lo in range(0, n, step):
                tasks.append((work_exhaustive, (o, h, lo, min(lo + step, n))))
    width = 3 if tier == 'quick' else 4
    for o in ORIENTATIONS:
        for h in range(H + 1, 29):
            tasks.append((work_deep, (o, h, width)))
    for h in range(1, (5 if tier == 'quick' else 7) + 1):
        n = 4 ** h
        step = max(n // 4, 1) if h >= 5 else n
        for lo in range(0, n, step):
            tasks.append((work_interleaved, (h, lo, min(lo + step, n))))
    for h in range(6 if tier == 'quick' else 8, 29):
        tasks.append((work_interleaved_deep, (h, width)))
    tasks = common.rotate(tasks, common.seed())
    sums = {}
    cnts = {}
    keysets = {}
    for part in common.pmap(_dispatch, tasks):
        if hasattr(part, 'parts'):
            o, h, n, nk, asum, ks = part.parts
            sums[(o, h)] = sums.get((o, h), 0.0) + asum
            cnts[(o, h)] = cnts.get((o, h), 0) + nk
            if ks is not None:
                keysets.setdefault((o, h), []).append(ks)
        acc.merge(part)
    if not acc.vmap:
        for (o, h), asum in sorted(sums.items()):
            case = {'o': o, 'h': h, 'S': 0}
            if abs(asum / tri_area() - 1) > 1e-9 + 2 ** h * 4e-15:
                acc.violation(f'c18:{o}:h={h}:area-sum', f'the 4^{h} cells have total area {asum!r}, triangle {tri_area()!r}', case)
            total = cnts[(o, h)]
            if (o, h) in keysets:
                u = set()
                for ks in keysets[(o, h)]:
                    u |= ks
                total = len(u)
            if total != 4 ** h:
                acc.violation(f'c18:{o}:h={h}:count', f'{total} distinct cells for 4^{h} indices', case)
    acc.sample({'orientation': 'wv', 'level': 5, 'S': 777, 'path': 's_to_anchor -> get_pentagon_vertices -> centre*2^h -> face_to_ij -> ij_to_s'})
    acc.sample({'orientation': 'uw', 'level': 28, 'digits': '3^28'})
    rule = (f'6 orientations x levels 1..{H} x every index (exhaustive), then levels {H + 1}..28 x all 4^{width} digit windows at every offset over fills 0..3 and G1[single] patterns; one index in seven also in its text form; '
            'non-trivial = indices whose cell is distinct from every other cell of their task')
    return common.finish(PID, LEVEL, tier, acc, t0, rule, [
        'a "lattice-cell width" of level h is sqrt(area of the segment triangle / 4^h)',
        'exact filling of the triangle is checked by equal areas + area sum + pairwise distinct cells; non-overlap of the pentagons themselves is certified on the sphere by C03',
    ], extra={'exhaustive_to_level': H}, exhaustive=True)


def _dispatch(t):
    return t[0](t[1])


def replay(case):
    acc = common.Acc()
    check_index(acc, _lib(), int(case['S']), int(case['h']), case['o'])
    return [(k, w) for k, w, _ in acc.violations]
