"""C01 - the cell returned for a point contains that point (E1 + E2 input lattice, refuting spherical oracle)."""
import math
from vf import common, refmodel as rm, sphere as sp, geo, points

PID = 'C01'
LEVEL = 'exploration'


def pkey(p, r):
    return f'{p[0]!r},{p[1]!r}@{r}'


def check_point(acc, a5, stratum, p, r, origin, reuse=False):
    acc.n['evaluations'] += 1
    acc.strata[stratum.split('_cell_')[0] if '_cell_' in stratum else stratum] += 1
    case = {'point': [p[0], p[1]], 'r': r, 'stratum': stratum}
    k = f'c01:{pkey(p, r)}'
    try:
        arg = points.as_argument(p, reuse)
        c = a5.lonlat_to_cell(arg, r)
        if (arg[0], arg[1]) != (p[0], p[1]):
            acc.violation(k + ':argument-modified', f'lonlat_to_cell modified the coordinate list it was given: {p!r} -> {list(arg)!r}', case)
            return None
    except Exception as e:
        acc.violation(k + ':raises', f'lonlat_to_cell({p!r}, {r}) raised {type(e).__name__}: {e}', case)
        return None
    path = rm.decode(c) if isinstance(c, int) else None
    if path is None or rm.res(path) != r:
        acc.violation(k + ':resolution', f'lonlat_to_cell({p!r}, {r}) returned {c!r}, not a valid resolution-{r} id', case)
        return None
    try:
        verdict, info = geo.contains(c, r, sp.vec((sp.wrap_lon(p[0]) if abs(p[0]) > 180 else p[0], p[1])))
    except Exception as e:
        acc.violation(k + ':boundary-raises', f'cell_to_boundary({c:#x}) raised {type(e).__name__}: {e}', case)
        return None
    acc.n['verdict_' + verdict] += 1
    if info.get('K', 0) > geo.k0(r) and r >= 2:
        acc.n['needed_refinement'] += 1
    if verdict == 'outside':
        wd = sp.width(r)
        d = info.get('dist')
        acc.violation(k + ':outside', f'lonlat_to_cell({p!r}, {r}) = {c:#x} but the point is outside that cell\'s ring by {d / wd if d else float("nan"):.3g} cell widths '
                      f'(K={info.get("K")}, polyline error {info.get("sagitta")})', case)
        return c
    if verdict == 'unaligned':
        acc.n['skipped_unaligned_rings'] += 1
        return c
    if origin is not None and c == origin:
        acc.n['returned_generating_cell'] += 1
    if verdict == 'inside':
        acc.n['nontrivial'] += 1
    acc.outcome(c)
    return c


def work(task):
    a5 = geo.api()
    acc = common.Acc()
    try:
        pts = points.expand(task)
    except Exception as e:
        acc.violation(f'c01:alphabet:{task[0]}:{str(task[1])[:60]}', f'building the point alphabet raised {type(e).__name__}: {e} (a boundary or cell lookup failed)', {'task': list(task)[:2]})
        return acc
    base = {}
    reuse = (hash(str(task[1])[:40]) + len(pts)) % 2 == 0     # every second task passes one list object, updated in place, instead of fresh tuples
    acc.n['tasks_with_reused_list_argument'] += 1 if reuse else 0
    for stratum, p, r, origin in pts:
        c = check_point(acc, a5, stratum, p, r, origin, reuse)
        if stratum == 'periodic' and c is not None:
            # 360-degree periodicity: same cell as for the wrapped longitude, or at least a cell that also contains the point
            q = (sp.wrap_lon(p[0]), p[1])
            try:
                cb = base.get((q, r)) or a5.lonlat_to_cell(q, r)
            except Exception:
                continue
            base[(q, r)] = cb
            if cb == c:
                acc.n['periodic_same'] += 1
            else:
                acc.n['periodic_other_cell_but_containing'] += 1
    if task[0] == 'cells':
        acc.sample({'generating cell': hex(rm.encode(task[1][0])), 'points': [list(pp) for _, pp, _, _ in pts[:3]]}, cap=1)
    return acc


def run(tier, t0):
    acc = common.Acc()
    tasks = points.tasks(tier, common.seed())
    tasks = common.rotate(tasks, common.seed())
    common.pmap_merge(work, tasks, acc, chunksize=2)
    acc.sample({'site': 'north pole', 'inputs': 'lonlat_to_cell((lon, 90.0), r) for 8 longitudes incl. -539, r = 0..29'})
    rule = ('for every explored cell (all cells of resolutions <= 4 quick / 6 thorough, digit-pattern cells and cells found at 88 special sites up to resolution 29): the centre and each corner / edge midpoint '
            'pulled inside by 3 insets; plus raw log-scaled neighbourhoods (1e-12..1e-1 rad) of the 62 frame points, both poles and 24 antimeridian points at every resolution, +-360/+-720 copies and exact poles; '
            'non-trivial = points strictly inside the returned cell by the independent oracle (ties near an edge are counted separately)')
    return common.finish(PID, LEVEL, tier, acc, t0, rule, [
        'containment is judged on the ring published by cell_to_boundary with segments K = 1..256 (quadrupled while the point is closer to the polyline than the polyline\'s own measured error)',
        'a point is reported only if outside by more than 2*sagitta + 2e-11 rad + 1e-9 cell widths; closer points are edge ties (either adjoining cell allowed by the statement)',
        'between alphabet points the verdict relies on piecewise smoothness of the projection; the alphabet hugs every cell corner/edge explored and every frame point, pole and seam at 12 log scales',
    ], exhaustive=False)


def replay(case):
    acc = common.Acc()
    if 'point' not in case:
        return [('c01:alphabet', 're-run the check')]
    check_point(acc, geo.api(), case.get('stratum', 'replay'), tuple(case['point']), case['r'], None)
    return [(k, w) for k, w, _ in acc.violations]
