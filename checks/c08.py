"""C08 - compact never changes the covered region (E3 antichain-lattice explorer plus overlap edits)."""
from vf import common, compact_check as cc

PID = 'C08'
LEVEL = 'model_checking'


def run(tier, t0):
    acc = common.Acc()
    cc.explore('C08', tier, acc)
    rule = ('BFS over antichains of cells by remove(x)/split(x) edits from the bases listed in notes, plus every antichain of <= 4 (quick) / 5 (thorough) cells over a 38-cell menu the cascade spines listed in notes (1..30 merging passes in one call) and the two-level sibling blocks listed in notes (every combination of absent / whole / split / first-child-only / all-but-last children below a grandparent); for every state also up to 2x5 overlapping variants (parent, face ancestor, '
            'first child, all-but-first children, a grandchild added); each list is compacted by the real compact (3 orders/duplications) and the covered region compared with the input '
            'through the canonical form, and literally through uncompact to the finest level when that has <= 1024 cells; non-trivial = states that merge or overlap')
    return common.finish(PID, LEVEL, tier, acc, t0, rule, [
        'two cell sets cover the same region iff their canonical minimal antichains are equal (reference compaction on tuple paths)',
        'the literal uncompact comparison uses the real uncompact on the compacted side and the reference expansion on the input side',
    ], exhaustive=True)


def replay(case):
    import a5
    acc = common.Acc()
    if 'list' in case:
        paths = [tuple(p) for p in case['list']]
        cc.check_c08_list(acc, a5, paths, 'c08-overlap:' + cc.key_of(paths), case)
    else:
        state = tuple(sorted(tuple(p) for p in case['state']))
        cc.check_c08(acc, a5, state, (), 2)
    return [(k, w) for k, w, _ in acc.violations]
