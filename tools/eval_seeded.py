#!/venv/bin/python
"""Evaluate one seeded breaking change against the checks.

usage: eval_seeded.py <mutation dir with patch.diff and demo.py> [--checks C01,C11] [--tier quick] [--no-suite]

Creates a scratch git worktree of /repo HEAD outside /repo and /verif, applies the patch there, runs
  1. the repository test suite (must still pass),
  2. demo.py against the patched copy (must fail) and against /repo (must pass),
  3. the requested checks with A5_REPO pointing at the patched copy (evidence/replays redirected to a scratch directory through VERIF_OUT, so
     the committed evidence always comes from /repo itself),
and prints a JSON summary.  The worktree is removed afterwards.
"""
import os
import sys
import json
import shutil
import argparse
import subprocess
import tempfile

VERIF = os.path.dirname(os.path.dirname(os.path.abspath(__file__)))
PY = '/venv/bin/python'


def sh(cmd, cwd=None, env=None, timeout=3600):
    p = subprocess.run(cmd, cwd=cwd, env=env, capture_output=True, text=True, timeout=timeout)
    return p.returncode, p.stdout + p.stderr


def main():
    ap = argparse.ArgumentParser()
    ap.add_argument('mdir')
    ap.add_argument('--checks', default='')
    ap.add_argument('--tier', default='quick')
    ap.add_argument('--no-suite', action='store_true')
    ap.add_argument('--nproc', default='16')
    args = ap.parse_args()
    mdir = os.path.abspath(args.mdir)
    patch = os.path.join(mdir, 'patch.diff')
    demo = os.path.join(mdir, 'demo.py')
    wt = tempfile.mkdtemp(prefix='a5-seeded-', dir='/tmp')
    os.rmdir(wt)
    out = {'mutation': mdir}
    try:
        rc, o = sh(['git', '-C', '/repo', 'worktree', 'add', '-q', '--detach', wt, 'HEAD'])
        assert rc == 0, o
        rc, o = sh(['git', 'apply', '--whitespace=nowarn', patch], cwd=wt)
        out['patch_applies'] = rc == 0
        if rc != 0:
            out['error'] = o[-1500:]
            print(json.dumps(out, indent=1))
            return 2
        if not args.no_suite:
            rc, o = sh([PY, '-m', 'pytest', '-q', '-p', 'no:cacheprovider', '--timeout=900', '-x'], cwd=wt)
            out['suite_passes'] = rc == 0
            out['suite_tail'] = o.strip().splitlines()[-1] if o.strip() else ''
        if os.path.exists(demo):
            rc1, o1 = sh([PY, demo, wt], cwd=wt, timeout=1800)
            rc0, o0 = sh([PY, demo, '/repo'], cwd='/repo', timeout=1800)
            out['demo_fails_with_patch'] = rc1 != 0
            out['demo_passes_on_repo'] = rc0 == 0
            out['demo_tail'] = (o1.strip().splitlines() or [''])[-1][:300]
            if rc0 != 0:
                out['demo_repo_tail'] = (o0.strip().splitlines() or [''])[-1][:300]
        results = {}
        for pid in [c for c in args.checks.split(',') if c]:
            env = dict(os.environ, A5_REPO=wt, VERIF_NPROC=args.nproc, VERIF_OUT=wt + '-out')
            rc, o = sh([PY, os.path.join(VERIF, 'run_check.py'), pid, '--tier', args.tier], cwd=VERIF, env=env, timeout=7200)
            lines = o.strip().splitlines()
            viol = [l for l in lines if l.startswith('VIOLATION')]
            results[pid] = {'rc': rc, 'violations': len(viol), 'first': viol[0][:400] if viol else '', 'summary': lines[-1][:300] if lines else ''}
        out['checks'] = results
        out['detected_by'] = sorted(p for p, r in results.items() if r['rc'] == 1)
        out['machinery_errors'] = sorted(p for p, r in results.items() if r['rc'] not in (0, 1))
    finally:
        sh(['git', '-C', '/repo', 'worktree', 'remove', '--force', wt])
        shutil.rmtree(wt, ignore_errors=True)
        shutil.rmtree(wt + '-out', ignore_errors=True)
    print(json.dumps(out, indent=1))
    return 0


if __name__ == '__main__':
    sys.exit(main())
