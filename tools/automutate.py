#!/venv/bin/python
"""Systematic first-order mutation campaign (complements the hand-made seeded changes).

  phase 1: generate AST-level mutants of a5/ (comparison, arithmetic, constant, condition negation, table swap), a deterministic
           sample per file; keep those the repository's own test suite does NOT kill;
  phase 2: run the mapped checks (quick tier) against every survivor, most relevant check first, stop at the first kill.

usage: automutate.py gen|suite|checks|report [--per-file N] [--jobs J]
State lives in /tmp/a5-automutate (scratch) and the summary is written to /verif/seeded/automutate_report.json.
"""
import os
import sys
import ast
import json
import shutil
import hashlib
import argparse
import subprocess
import concurrent.futures as cf

VERIF = os.path.dirname(os.path.dirname(os.path.abspath(__file__)))
WORK = '/tmp/a5-automutate'
PY = '/venv/bin/python'

FILES = {
    'a5/core/serialization.py': ['C05', 'C06', 'C10', 'C09', 'C08', 'C20'],
    'a5/core/compact.py': ['C09', 'C08', 'C10'],
    'a5/core/cell_info.py': ['C20', 'C10', 'C04'],
    'a5/core/hex.py': ['C19'],
    'a5/core/hilbert.py': ['C18', 'C02', 'C07'],
    'a5/core/origin.py': ['C02', 'C01', 'C03', 'C07'],
    'a5/core/tiling.py': ['C18', 'C02', 'C03'],
    'a5/core/cell.py': ['C02', 'C01', 'C12', 'C11'],
    'a5/core/coordinate_transforms.py': ['C02', 'C12', 'C15', 'C13'],
    'a5/core/pentagon.py': ['C18', 'C03', 'C04'],
    'a5/core/constants.py': ['C13', 'C03'],
    'a5/core/dodecahedron_quaternions.py': ['C13', 'C03'],
    'a5/geometry/pentagon.py': ['C12', 'C01', 'C03'],
    'a5/geometry/spherical_polygon.py': ['C13', 'C14'],
    'a5/projections/dodecahedron.py': ['C13', 'C14', 'C03', 'C01'],
    'a5/projections/polyhedral.py': ['C13', 'C14', 'C04'],
    'a5/projections/authalic.py': ['C15', 'C04'],
    'a5/projections/gnomonic.py': ['C13'],
    'a5/projections/crs.py': ['C13', 'C03'],
    'a5/math/vec3.py': ['C13', 'C02'],
    'a5/math/vec2.py': ['C13', 'C18'],
    'a5/math/quat.py': ['C13'],
}


def seg(src_lines, node):
    """(start offset, end offset) of node in the flat source"""
    return node.lineno, node.col_offset, node.end_lineno, node.end_col_offset


def mutants_of(path):
    src = open(path).read()
    tree = ast.parse(src)
    lines = src.split('\n')
    offs = [0]
    for ln in lines:
        offs.append(offs[-1] + len(ln) + 1)

    def span(node):
        return offs[node.lineno - 1] + node.col_offset, offs[node.end_lineno - 1] + node.end_col_offset

    # skip annotations and docstrings
    skip = set()
    for node in ast.walk(tree):
        for attr in ('annotation', 'returns'):
            a = getattr(node, attr, None)
            if a is not None:
                for sub in ast.walk(a):
                    skip.add(id(sub))
        if isinstance(node, (ast.FunctionDef, ast.ClassDef, ast.Module)) and node.body and isinstance(node.body[0], ast.Expr) and isinstance(node.body[0].value, ast.Constant) and isinstance(node.body[0].value.value, str):
            skip.add(id(node.body[0].value))
    out = []
    CMP = {ast.Lt: '<=', ast.LtE: '<', ast.Gt: '>=', ast.GtE: '>', ast.Eq: '!=', ast.NotEq: '=='}
    BIN = {ast.Add: '-', ast.Sub: '+', ast.Mult: '/', ast.Div: '*', ast.FloorDiv: '/', ast.LShift: '>>', ast.RShift: '<<', ast.Mod: '//'}
    for node in ast.walk(tree):
        if id(node) in skip:
            continue
        if isinstance(node, ast.Compare) and len(node.ops) == 1 and type(node.ops[0]) in CMP:
            a, b = span(node.left)[1], span(node.comparators[0])[0]
            out.append(('cmp', node.lineno, a, b, ' ' + CMP[type(node.ops[0])] + ' '))
        elif isinstance(node, ast.BinOp) and type(node.op) in BIN:
            if isinstance(node.left, ast.Constant) and isinstance(node.left.value, str):
                continue
            a, b = span(node.left)[1], span(node.right)[0]
            out.append(('bin', node.lineno, a, b, ' ' + BIN[type(node.op)] + ' '))
        elif isinstance(node, ast.Constant) and type(node.value) is int and not isinstance(node.value, bool) and abs(node.value) <= 1 << 62:
            a, b = span(node)
            out.append(('int+1', node.lineno, a, b, repr(node.value + 1)))
            if node.value != 0:
                out.append(('int-1', node.lineno, a, b, repr(node.value - 1)))
        elif isinstance(node, ast.Constant) and type(node.value) is float and node.value != 0:
            a, b = span(node)
            out.append(('float*(1+1e-9)', node.lineno, a, b, repr(node.value * (1 + 1e-9))))
            out.append(('float*(1+1e-4)', node.lineno, a, b, repr(node.value * (1 + 1e-4))))
        elif isinstance(node, (ast.If, ast.While)) or isinstance(node, ast.IfExp):
            a, b = span(node.test)
            out.append(('negate', node.test.lineno, a, b, 'not (' + src[a:b] + ')'))
        elif isinstance(node, (ast.List, ast.Tuple)) and len(node.elts) >= 2 and all(isinstance(e, (ast.Constant, ast.Name, ast.UnaryOp)) for e in node.elts) and isinstance(getattr(node, 'ctx', None), ast.Load):
            a0, b0 = span(node.elts[0])
            a1, b1 = span(node.elts[1])
            if src[a0:b0] != src[a1:b1]:
                out.append(('swap01', node.lineno, a0, b1, src[a1:b1] + src[b0:a1] + src[a0:b0]))
            a2, b2 = span(node.elts[-1])
            a3, b3 = span(node.elts[-2])
            if len(node.elts) > 2 and src[a2:b2] != src[a3:b3]:
                out.append(('swap-last', node.lineno, a3, b2, src[a2:b2] + src[b3:a2] + src[a3:b3]))
    res = []
    for kind, lineno, a, b, rep in out:
        new = src[:a] + rep + src[b:]
        if new == src:
            continue
        try:
            ast.parse(new)
        except SyntaxError:
            continue
        res.append({'kind': kind, 'line': lineno, 'old': src[a:b], 'new': rep, 'source': new, 'span': [a, b]})
    return res


def cmd_gen(args):
    os.makedirs(WORK, exist_ok=True)
    allm = []
    for rel in FILES:
        ms = mutants_of(os.path.join('/repo', rel))
        # deterministic sample: order by a hash, take per-file quota spread over kinds
        ms.sort(key=lambda m: hashlib.sha1(f"{rel}:{m['line']}:{m['kind']}:{m['old']}:{m['new']}".encode()).hexdigest())
        take = ms[:args.per_file]
        for m in take:
            m['file'] = rel
            m['old_id'] = hashlib.sha1(f"{rel}:{m['line']}:{m['kind']}:{m['old']}:{m['new']}".encode()).hexdigest()[:10]
            m['id'] = hashlib.sha1(f"{rel}:{m['span']}:{m['kind']}:{m['old']}:{m['new']}".encode()).hexdigest()[:10]
            allm.append(m)
        print(rel, len(ms), 'mutants,', len(take), 'sampled')
    json.dump(allm, open(os.path.join(WORK, 'mutants.json'), 'w'))
    print('total', len(allm))


def tree_for(m):
    d = os.path.join(WORK, 'trees', m['id'])
    if not os.path.exists(d):
        os.makedirs(os.path.dirname(d), exist_ok=True)
        os.makedirs(d)
        # plain export of HEAD (git worktree add is not safe to run concurrently)
        subprocess.run('git -C /repo archive HEAD | tar -x -C ' + d, shell=True, check=True)
        open(os.path.join(d, m['file']), 'w').write(m['source'])
    return d


def drop_tree(m):
    d = os.path.join(WORK, 'trees', m['id'])
    shutil.rmtree(d, ignore_errors=True)


def suite_one(m):
    d = tree_for(m)
    try:
        p = subprocess.run([PY, '-m', 'pytest', '-x', '-q', '-p', 'no:cacheprovider', '--timeout=120'], cwd=d, capture_output=True, text=True, timeout=900)
        ok = p.returncode == 0
    except subprocess.TimeoutExpired:
        ok = False
    if not ok:
        drop_tree(m)
    return m['id'], ok


def cmd_suite(args):
    ms = json.load(open(os.path.join(WORK, 'mutants.json')))
    res_path = os.path.join(WORK, 'suite.json')
    res = json.load(open(res_path)) if os.path.exists(res_path) else {}
    todo = [m for m in ms if m['id'] not in res]
    with cf.ThreadPoolExecutor(args.jobs) as ex:
        for i, (mid, ok) in enumerate(ex.map(suite_one, todo)):
            res[mid] = ok
            if i % 20 == 0:
                json.dump(res, open(res_path, 'w'))
                print(i, 'of', len(todo), 'survivors so far', sum(1 for v in res.values() if v), flush=True)
    json.dump(res, open(res_path, 'w'))
    print('suite phase done:', sum(1 for v in res.values() if v), 'survivors of', len(res))


def check_one(m, nproc):
    d = tree_for(m)
    killers = []
    tried = []
    for pid in FILES[m['file']]:
        env = dict(os.environ, A5_REPO=d, VERIF_NPROC=str(nproc), VERIF_OUT=d + '-out')
        try:
            p = subprocess.run([PY, os.path.join(VERIF, 'run_check.py'), pid, '--tier', 'quick'], cwd=VERIF, env=env, capture_output=True, text=True, timeout=1800)
            rc = p.returncode
            first = next((l for l in p.stdout.splitlines() if l.startswith('VIOLATION')), '')[:300]
        except subprocess.TimeoutExpired:
            rc, first = 124, 'timeout'
        tried.append((pid, rc))
        if rc != 0:
            killers.append((pid, rc, first))
            break
    drop_tree(m)
    shutil.rmtree(d + '-out', ignore_errors=True)
    return m['id'], killers, tried


def cmd_checks(args):
    ms = {m['id']: m for m in json.load(open(os.path.join(WORK, 'mutants.json')))}
    suite = json.load(open(os.path.join(WORK, 'suite.json')))
    res_path = os.path.join(WORK, 'checks.json')
    res = json.load(open(res_path)) if os.path.exists(res_path) else {}
    todo = [ms[i] for i, ok in suite.items() if ok and i not in res]
    nproc = max(2, 16 // args.jobs)
    with cf.ThreadPoolExecutor(args.jobs) as ex:
        futs = [ex.submit(check_one, m, nproc) for m in todo]
        for i, f in enumerate(cf.as_completed(futs)):
            mid, killers, tried = f.result()
            res[mid] = {'killers': killers, 'tried': tried}
            json.dump(res, open(res_path, 'w'))
            print(i + 1, 'of', len(todo), mid, ms[mid]['file'], ms[mid]['line'], ms[mid]['kind'], '->', killers[0][0] if killers else 'NOT KILLED', flush=True)


def cmd_report(args):
    ms = json.load(open(os.path.join(WORK, 'mutants.json')))
    suite = json.load(open(os.path.join(WORK, 'suite.json')))
    checks = json.load(open(os.path.join(WORK, 'checks.json'))) if os.path.exists(os.path.join(WORK, 'checks.json')) else {}
    rows = []
    for m in ms:
        if not suite.get(m['id']):
            continue
        c = checks.get(m['id'])
        rows.append({'id': m['id'], 'file': m['file'], 'line': m['line'], 'kind': m['kind'], 'old': m['old'][:80], 'new': m['new'][:80],
                     'killed_by': c['killers'][0][0] if c and c['killers'] else None, 'exit': c['killers'][0][1] if c and c['killers'] else None,
                     'first': c['killers'][0][2] if c and c['killers'] else '', 'checks_tried': [t[0] for t in c['tried']] if c else []})
    summary = {'mutants_generated': len(ms), 'killed_by_repository_suite': sum(1 for m in ms if suite.get(m['id']) is False),
               'survived_suite': len(rows), 'survivors_killed_by_checks': sum(1 for r in rows if r['killed_by']),
               'survivors_not_killed': sum(1 for r in rows if not r['killed_by'] and r['checks_tried'])}
    json.dump({'summary': summary, 'survivors': rows}, open(os.path.join(VERIF, 'seeded', 'automutate_report.json'), 'w'), indent=1)
    print(json.dumps(summary, indent=1))
    for r in rows:
        if not r['killed_by'] and r['checks_tried']:
            print('NOT KILLED', r['file'], r['line'], r['kind'], repr(r['old']), '->', repr(r['new']))


if __name__ == '__main__':
    ap = argparse.ArgumentParser()
    ap.add_argument('cmd', choices=['gen', 'suite', 'checks', 'report'])
    ap.add_argument('--per-file', type=int, default=25)
    ap.add_argument('--jobs', type=int, default=8)
    a = ap.parse_args()
    {'gen': cmd_gen, 'suite': cmd_suite, 'checks': cmd_checks, 'report': cmd_report}[a.cmd](a)
