#!/venv/bin/python
"""Entry point of every registered check:  run_check.py <ID> [--tier quick|thorough] [--replay file]

exit 0: the property held on everything explored (known findings are printed as KNOWN-FINDING lines)
exit 1: at least one violation not listed in known_findings.json; one `VIOLATION property=<id> replay=<path>` line each
"""
import os
import sys

if os.environ.get('PYTHONHASHSEED') != '0':
    os.environ['PYTHONHASHSEED'] = '0'
    os.execv(sys.executable, [sys.executable] + sys.argv)

import argparse
import importlib
import json
import time
import traceback

HERE = os.path.dirname(os.path.abspath(__file__))
sys.path.insert(0, HERE)
os.chdir(HERE)


def main():
    ap = argparse.ArgumentParser()
    ap.add_argument('pid')
    ap.add_argument('--tier', default=os.environ.get('VERIF_TIER', 'quick'), choices=['quick', 'thorough'])
    ap.add_argument('--replay')
    args = ap.parse_args()
    pid = args.pid.upper()
    from vf import common
    common.import_a5()
    mod = importlib.import_module('checks.' + pid.lower())
    if args.replay:
        with open(args.replay) as fh:
            rec = json.load(fh)
        out = mod.replay(rec['case'])
        if out:
            for key, what in out:
                print(f'REPLAY-VIOLATION property={pid} key={key} # {what}')
            return 1
        print(f'REPLAY-OK property={pid}: the recorded case does not violate the property on this tree')
        return 0
    t0 = time.time()
    import gc
    gc.disable()      # this process only accumulates large acyclic results; worker processes re-enable the collector (vf/common.py)
    return mod.run(args.tier, t0)


if __name__ == '__main__':
    try:
        rc = main()
    except SystemExit:
        raise
    except BaseException:
        traceback.print_exc()
        # an internal error of the machinery is not a verdict about the property: distinct exit code
        sys.exit(3)
    sys.exit(rc)
