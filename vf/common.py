"""Shared runner machinery: importing the tree under test, parallel enumeration, evidence, known findings, replays.

Everything here is deterministic.  VERIF_SEED is recorded and only rotates the order in which equivalent
sub-alphabets are visited; it never decides a verdict.
"""
import os
import sys
import json
import time
import hashlib
import collections
import multiprocessing

VERIF = os.path.dirname(os.path.dirname(os.path.abspath(__file__)))
REPO = os.environ.get('A5_REPO', '/repo').rstrip('/')
NPROC = int(os.environ.get('VERIF_NPROC', '16'))

# The tree under test is always imported from REPO's working tree (never a cached copy elsewhere).
if REPO not in sys.path:
    sys.path.insert(0, REPO)
sys.dont_write_bytecode = True


def import_a5():
    import a5
    f = os.path.realpath(a5.__file__)
    assert f.startswith(os.path.realpath(REPO) + os.sep), f'a5 imported from {f}, not from {REPO}'
    return a5


def raised_inside_library(e):
    """True when the innermost frame of the traceback text carried by a worker error lies inside the package under test (the library
    raised on its own), False when the harness itself failed (that stays a machinery error, exit 3)"""
    import re
    files = re.findall(r'File "([^"]+)", line \d+', str(e))
    root = os.path.join(os.path.realpath(REPO), 'a5') + os.sep
    return bool(files) and os.path.realpath(files[-1]).startswith(root)


def library_error_line(e):
    lines = [l for l in str(e).strip().splitlines() if l.strip()]
    return lines[-1].strip() if lines else repr(e)


def seed():
    try:
        return int(os.environ.get('VERIF_SEED', '0'))
    except ValueError:
        return 0


class Acc:
    """Mergeable accumulator returned by workers."""
    NUM = ('states', 'transitions', 'validated', 'evaluations', 'nontrivial')

    def __init__(self):
        self.n = collections.Counter()          # named integer counters (summed on merge)
        self.strata = collections.Counter()     # per-stratum counts
        self.vmap = {}                          # key -> [what, case, count]  (distinct keys, capped)
        self.samples = []
        self.outcomes = set()                   # hashes of distinct observed outcomes (bounded)
        self.maxima = {}                        # name -> (value, witness)
        self.notes = []

    VCAP = 5000

    def violation(self, key, what, case):
        e = self.vmap.get(key)
        if e is not None:
            e[2] += 1
        elif len(self.vmap) < self.VCAP:
            self.vmap[key] = [what, case, 1]
        else:
            self.n['violations_dropped'] += 1
        self.n['violations_total'] += 1

    @property
    def violations(self):
        return [(k, v[0], v[1]) for k, v in self.vmap.items()]

    def sample(self, s, cap=4):
        if len(self.samples) < cap:
            self.samples.append(s)

    def outcome(self, o):
        if len(self.outcomes) < 200000:
            self.outcomes.add(o)

    def maximum(self, name, value, witness=None):
        cur = self.maxima.get(name)
        if cur is None or value > cur[0]:
            self.maxima[name] = (value, witness)

    def merge(self, other):
        self.n.update(other.n)
        self.strata.update(other.strata)
        for k, (what, case, cnt) in other.vmap.items():
            e = self.vmap.get(k)
            if e is not None:
                e[2] += cnt
            elif len(self.vmap) < self.VCAP:
                self.vmap[k] = [what, case, cnt]
            else:
                self.n['violations_dropped'] += cnt
        for s in other.samples:
            if len(self.samples) < 12:
                self.samples.append(s)
        if len(self.outcomes) < 200000:
            self.outcomes |= other.outcomes
        for k, (v, w) in other.maxima.items():
            self.maximum(k, v, w)
        self.notes.extend(other.notes[:20])
        return self


def _call(args):
    func, task = args
    return func(task)


def _worker_init():
    import gc
    gc.enable()          # the parent runs with the cyclic GC off (it only accumulates large acyclic results); workers keep it on


def pmap(func, tasks, nproc=None, chunksize=1):
    """Run func(task) -> Acc over tasks in a fork pool; yields Accs.  func must be a module-level function."""
    tasks = list(tasks)
    nproc = nproc or NPROC
    if nproc <= 1 or len(tasks) <= 1:
        for t in tasks:
            yield func(t)
        return
    ctx = multiprocessing.get_context('fork')
    with ctx.Pool(min(nproc, len(tasks)), initializer=_worker_init) as pool:
        for r in pool.imap_unordered(_call, [(func, t) for t in tasks], chunksize):
            yield r


def pmap_merge(func, tasks, acc=None, nproc=None, chunksize=1):
    acc = acc or Acc()
    for r in pmap(func, tasks, nproc, chunksize):
        acc.merge(r)
    return acc


def rotate(seq, k):
    seq = list(seq)
    if not seq:
        return seq
    k %= len(seq)
    return seq[k:] + seq[:k]


def chunks(seq, n):
    seq = list(seq)
    for i in range(0, len(seq), n):
        yield seq[i:i + n]


# ---------------------------------------------------------------------------------------------------------------
# known findings
# ---------------------------------------------------------------------------------------------------------------

def load_known(pid):
    path = os.path.join(VERIF, 'known_findings.json')
    if not os.path.exists(path):
        return {}
    with open(path) as fh:
        data = json.load(fh)
    out = {}
    for e in data.get('findings', []):
        if e.get('status') == 'known' and e.get('property') == pid:
            out[e['key']] = e
    return out


def jsonable(x):
    if isinstance(x, (str, int, bool)) or x is None:
        return x
    if isinstance(x, float):
        if x != x or x in (float('inf'), float('-inf')):
            return repr(x)
        return x
    if isinstance(x, (list, tuple, set, frozenset)):
        return [jsonable(v) for v in x]
    if isinstance(x, dict):
        return {str(k): jsonable(v) for k, v in x.items()}
    return repr(x)


def finish(pid, level, tier, acc, t0, rule, assumptions, extra=None, exhaustive=False):
    """Write evidence, replays, print verdict lines; returns the process exit code."""
    known = load_known(pid)
    new = []
    known_hit = collections.OrderedDict()
    for key, (what, case, cnt) in acc.vmap.items():
        if key in known:
            known_hit[key] = (what, cnt)
        else:
            new.append((key, what, case))
    truncated = acc.n['violations_dropped'] > 0

    # VERIF_OUT redirects evidence/replays (used only when evaluating seeded changes on scratch copies, so that the
    # committed evidence always comes from runs against /repo itself)
    OUT = os.environ.get('VERIF_OUT', VERIF)
    os.makedirs(os.path.join(OUT, 'replays'), exist_ok=True)
    os.makedirs(os.path.join(OUT, 'evidence'), exist_ok=True)
    seen_keys = set()
    replay_paths = []
    for key, what, case in new:
        if key in seen_keys:
            continue
        seen_keys.add(key)
        h = hashlib.sha1(key.encode()).hexdigest()[:12]
        path = os.path.join(OUT, 'replays', f'{pid}-{h}.json')
        with open(path, 'w') as fh:
            json.dump({'property': pid, 'key': key, 'what': what, 'case': jsonable(case)}, fh, indent=1)
        replay_paths.append((key, what, path))

    for key, (what, cnt) in known_hit.items():
        print(f'KNOWN-FINDING: property={pid} {known[key].get("what", what)} [key={key}, {cnt} case(s) this run]')
    for key, what, path in replay_paths[:50]:
        print(f'VIOLATION property={pid} replay={path}  # {what}')
    if len(replay_paths) > 50:
        print(f'... {len(replay_paths) - 50} more distinct violation keys (replay files written)')

    cov = {
        'states': int(acc.n['states']),
        'transitions': int(acc.n['transitions']),
        'traces_validated_against_impl': int(acc.n['validated']),
        'evaluations': int(acc.n['evaluations'] or acc.n['states']),
        'distinct_nontrivial': int(acc.n['nontrivial']),
        'rule': rule,
        'samples': jsonable(acc.samples[:12]) or ['(none recorded)'],
        'exhaustive': bool(exhaustive),
        'distinct_outcomes': len(acc.outcomes),
        'strata': {k: int(v) for k, v in sorted(acc.strata.items())},
        'counters': {k: int(v) for k, v in sorted(acc.n.items())},
        'maxima': {k: jsonable(v) for k, v in sorted(acc.maxima.items())},
        'known_findings_matched': {k: c for k, (w, c) in known_hit.items()},
        'violation_list_truncated': truncated,
    }
    if acc.notes:
        cov['notes'] = acc.notes[:40]
    if extra:
        cov.update(jsonable(extra))
    ev = {
        'property_id': pid,
        'tier': tier,
        'seed': seed(),
        'level': level,
        'coverage': cov,
        'assumptions': assumptions,
        'wall_s': round(time.time() - t0, 3),
        'violations': len(seen_keys),
    }
    with open(os.path.join(OUT, 'evidence', f'{pid}.json'), 'w') as fh:
        json.dump(ev, fh, indent=1, sort_keys=False)
        fh.write('\n')
    status = 'FAIL' if new else 'ok'
    print(f'[{pid}] {status} tier={tier} states={cov["states"]} transitions={cov["transitions"]} '
          f'validated={cov["traces_validated_against_impl"]} evaluations={cov["evaluations"]} '
          f'nontrivial={cov["distinct_nontrivial"]} outcomes={cov["distinct_outcomes"]} '
          f'new_violations={len(seen_keys)} known={len(known_hit)} wall={ev["wall_s"]}s')
    return 1 if new else 0


# ---------------------------------------------------------------------------------------------------------------
# fresh-process map: every task runs in its own fork of the *calling* process (used where a pristine library state
# per task matters: schedule and history explorers).  No multiprocessing.Pool (maxtasksperchild=1 proved unreliable).
# ---------------------------------------------------------------------------------------------------------------

def fresh_map(func, tasks, nproc=None, timeout=3600):
    """yields (index, result) in completion order; result is whatever func returned (must pickle).
    A task whose process dies or times out yields (index, RuntimeError(...))."""
    import pickle
    import select
    import signal
    tasks = list(tasks)
    nproc = nproc or NPROC
    running = {}   # read fd -> (pid, index, start, buffer)
    nxt = 0
    while nxt < len(tasks) or running:
        while nxt < len(tasks) and len(running) < nproc:
            r, w = os.pipe()
            sys.stdout.flush()
            sys.stderr.flush()
            pid = os.fork()
            if pid == 0:
                code = 0
                try:
                    os.close(r)
                    for fd in list(running):
                        os.close(fd)
                    import gc
                    gc.enable()
                    try:
                        out = ('ok', func(tasks[nxt]))
                    except BaseException as e:  # noqa
                        import traceback
                        out = ('err', traceback.format_exc())
                    data = pickle.dumps(out)
                    view = memoryview(data)
                    while view:
                        n = os.write(w, view[:1 << 16])
                        view = view[n:]
                except BaseException:
                    code = 1
                finally:
                    os._exit(code)
            os.close(w)
            running[r] = [pid, nxt, time.time(), []]
            nxt += 1
        rd, _, _ = select.select(list(running), [], [], 1.0)
        now = time.time()
        for fd in rd:
            chunk = os.read(fd, 1 << 20)
            if chunk:
                running[fd][3].append(chunk)
                continue
            pid, idx, st, buf = running.pop(fd)
            os.close(fd)
            os.waitpid(pid, 0)
            try:
                kind, val = pickle.loads(b''.join(buf))
            except Exception:
                yield idx, RuntimeError('worker process died without a result')
                continue
            if kind == 'err':
                yield idx, RuntimeError('worker raised:\n' + val)
            else:
                yield idx, val
        for fd in list(running):
            pid, idx, st, buf = running[fd]
            if now - st > timeout:
                try:
                    os.kill(pid, signal.SIGKILL)
                except ProcessLookupError:
                    pass
                os.waitpid(pid, 0)
                os.close(fd)
                del running[fd]
                yield idx, RuntimeError(f'worker timed out after {timeout}s')
