"""C09 - compact output is the unique minimal, duplicate-free representation (E3 antichain-lattice explorer)."""
from vf import common, compact_check as cc

PID = 'C09'
LEVEL = 'model_checking'


def run(tier, t0):
    acc = common.Acc()
    cc.explore('C09', tier, acc)
    rule = ('BFS over antichains of cells by edit operations remove(x)/split(x) from the bases listed in notes, plus every antichain of <= 4 (quick) / 5 (thorough) cells over a 38-cell menu and the cascade spines listed in notes (sibling staircases that need 1..30 merging passes in one call), exact deduplication on the antichain; every state is given to the real '
            'compact in sorted, reversed, rotated, interleaved, duplicated and ascending-with-neighbouring-duplicates order (all permutations for small states) and compared with the set-based reference compaction; '
            'non-trivial = states in which at least one sibling group has to merge')
    return common.finish(PID, LEVEL, tier, acc, t0, rule, [
        'reference compaction vf/refmodel.ref_compact on tuple paths; ids via the reference codec (validated against the implementation by C05)',
        'only antichain inputs (as the statement requires); overlapping inputs belong to C08',
    ], exhaustive=True)


def replay(case):
    import a5
    acc = common.Acc()
    state = tuple(sorted(tuple(p) for p in case['state']))
    cc.check_c09(acc, a5, state, (), 5)
    return [(k, w) for k, w, _ in acc.violations]
