"""Three tiny functions with known concurrency behaviour, used to validate the schedule explorers themselves."""
scratch = [0]
guarded_scratch = [0]


def plain(x):
    # classic shared scratch: broken by ONE preemption (another complete call between the write and the read)
    scratch[0] = x
    y = scratch[0]
    return y * 2


def guarded(x):
    # save / restore around the use: transparent to any COMPLETE call run inside a gap, broken only when two calls are in mid-flight
    old = guarded_scratch[0]
    guarded_scratch[0] = x
    y = guarded_scratch[0]
    guarded_scratch[0] = old
    return y * 2


def pure(x):
    a = [0]
    a[0] = x
    y = a[0]
    return y * 2
