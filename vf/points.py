"""E2 - the point alphabet shared by C01, C11 and the point-quantified half of C07.

Tasks are small picklable tuples; `expand(task)` turns one into a list of (stratum, (lon, lat), resolution, origin) where
origin is the generating cell id (or None).  Everything is deterministic.
"""
import math
from . import refmodel as rm, seeds, sphere as sp, geo


def insets_for(r):
    return (0.2, 0.02, 0.002) if r < 12 else (1e-1, 1e-3, 1e-6)


def cell_points(cell, r):
    """points generated from a cell: centre, just-inside corners, just-inside edge midpoints"""
    out = []
    for kind, v in geo.inside_points(cell, r, insets_for(r)):
        out.append((kind, sp.lonlat(v), r, cell))
    return out


def tasks(tier, seed=0):
    """list of tasks: ('cells', [paths]) | ('site', kind, lon, lat, ndir, scales, resolutions) | ('poles',) | ('periodic', ...)"""
    out = []
    R = 4 if tier == 'quick' else 6
    for r in range(0, R + 1):
        for ch in _chunks(rm.descendants((), r), 40):
            out.append(('cells', ch))
    # deep digit-pattern cells
    deep = []
    for r in range(R + 1, 30):
        pats = seeds.g1_patterns(r - 1, 'basic')
        for i, d in enumerate(pats):
            if tier == 'quick':
                fs = [((i + r + seed) % 12, (i * 3 + r) % 5)]
            else:
                fs = [((i + r + seed + j * 5) % 12, (i * 3 + r + j) % 5) for j in range(4)]
            for f, n in fs:
                deep.append((f, n) + d)
    for ch in _chunks(sorted(set(deep)), 40):
        out.append(('cells', ch))
    if tier == 'quick':
        ndir, scales, rs = 4, [1e-12, 1e-9, 1e-6, 1e-4, 1e-2, 1e-1], list(range(0, 30))
    else:
        ndir, scales, rs = 12, geo.SCALES, list(range(0, 30))
    for kind, lon, lat in geo.special_sites(tier, seed):
        out.append(('site', kind, lon, lat, ndir, scales, rs))
        out.append(('sitecells', kind, lon, lat, rs if tier == 'thorough' else [r for r in rs if r % 3 == (seed % 3) or r >= 26]))
    out.append(('poles', list(range(0, 30))))
    return out


def _chunks(seq, n):
    seq = list(seq)
    return [seq[i:i + n] for i in range(0, len(seq), n)]


def expand(task):
    a5 = geo.api()
    kind = task[0]
    pts = []
    if kind == 'cells':
        for path in task[1]:
            c = rm.encode(path)
            pts.extend(cell_points(c, rm.res(path)))
    elif kind == 'site':
        _, skind, lon, lat, ndir, scales, rs = task
        nb = geo.neighbourhood(lon, lat, ndir, scales)
        for r in rs:
            for p in nb:
                pts.append((skind, p, r, None))
        # periodic copies of the site itself and of a few neighbours
        for p in nb[:1] + nb[1::7][:4]:
            for k in (-2, -1, 1, 2):
                for r in rs[::4]:
                    pts.append(('periodic', (p[0] + 360.0 * k, p[1]), r, None))
    elif kind == 'sitecells':
        # inside-points of the cells that the library reports at the site (non-initial states deep in the hierarchy)
        _, skind, lon, lat, rs = task
        seen = set()
        for r in rs:
            for p in ((lon, lat), sp.lonlat(sp.unit(sp.add(sp.vec((lon, lat)), (3e-1 * sp.width(r), -2e-1 * sp.width(r), 1e-1 * sp.width(r)))))):
                try:
                    c = a5.lonlat_to_cell(p, r)
                except Exception:
                    continue
                if c in seen or rm.decode(c) is None or rm.res(rm.decode(c)) != r:
                    continue
                seen.add(c)
                try:
                    pts.extend((skind + '_cell_' + k, q, rr, cc) for k, q, rr, cc in cell_points(c, r))
                except Exception:
                    continue
    elif kind == 'poles':
        for r in task[1]:
            for lat in (90.0, -90.0):
                for lon in (0.0, 45.0, 93.0, -87.0, 180.0, -180.0, 271.0, -539.0):
                    pts.append(('exact_pole', (lon, lat), r, None))
    return pts


_BUF = [0.0, 0.0]


def as_argument(p, reuse):
    """the point as the caller passes it: a fresh tuple, or (reuse=True) ONE list object per process that is updated in place between
    calls - a library that keeps a reference to its argument then sees the next point where it remembered the previous one"""
    if not reuse:
        return (p[0], p[1])
    _BUF[0] = p[0]
    _BUF[1] = p[1]
    return _BUF
