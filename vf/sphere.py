"""Independent spherical geometry oracle (textbook formulas, no code shared with a5).

Points handed to / received from the API are (lon, lat) in degrees, geodetic WGS84.  The oracle works on the authalic
sphere: unit vectors with the closed-form authalic latitude, evaluated near the poles through the colatitude so that
no asin/acos cancellation occurs.
"""
import math

F_WGS84 = 1 / 298.257223563
E2 = 2 * F_WGS84 - F_WGS84 * F_WGS84
E = math.sqrt(E2)
_QP = (1 - E2) * (1 / (1 - E2) + math.atanh(E) / E)      # q at the pole
PI = math.pi
HALF_PI = math.pi / 2


def authalic_colat(psi):
    """geodetic colatitude psi in [0, pi/2] (rad) -> authalic colatitude, stable for psi -> 0"""
    h = math.sin(psi / 2)
    one_minus_s = 2 * h * h                     # 1 - sin(phi)
    s = 1 - one_minus_s
    dq = (1 - E2) * (one_minus_s * (1 + E2 * s) / ((1 - E2) * (1 - E2 * s * s)) + math.atanh(E * one_minus_s / (1 - E2 * s)) / E)
    delta = dq / _QP                            # 1 - sin(beta) = 1 - cos(colat_beta)
    return 2 * math.asin(math.sqrt(delta / 2))


def authalic_lat(phi):
    """geodetic latitude (rad) -> authalic latitude (rad), closed form"""
    if phi < 0:
        return -authalic_lat(-phi)
    if phi > 0.7:
        return HALF_PI - authalic_colat(HALF_PI - phi)
    s = math.sin(phi)
    q = (1 - E2) * (s / (1 - E2 * s * s) + math.atanh(E * s) / E)
    return math.asin(q / _QP)


def geodetic_colat_from_authalic(psib):
    """inverse of authalic_colat by bisection on the colatitude (monotone), psib in [0, pi/2]"""
    lo, hi = 0.0, HALF_PI
    # authalic colatitude is slightly larger than geodetic: bracket by scaling
    for _ in range(200):
        mid = 0.5 * (lo + hi)
        if mid == lo or mid == hi:
            break
        if authalic_colat(mid) < psib:
            lo = mid
        else:
            hi = mid
    return 0.5 * (lo + hi)


def vec(lonlat):
    """(lon, lat) degrees -> unit vector on the authalic sphere"""
    lon, lat = lonlat
    lam = math.radians(lon)
    if lat >= 0:
        psi = math.radians(90.0 - lat)
        pb = authalic_colat(psi) if lat > 40 else HALF_PI - authalic_lat(math.radians(lat))
        sb, cb = math.cos(pb), math.sin(pb)
    else:
        psi = math.radians(90.0 + lat)
        pb = authalic_colat(psi) if lat < -40 else HALF_PI - authalic_lat(math.radians(-lat))
        sb, cb = -math.cos(pb), math.sin(pb)
    return (cb * math.cos(lam), cb * math.sin(lam), sb)


def lonlat(v):
    """unit vector (authalic sphere) -> (lon, lat) degrees with lon in [-180, 180]"""
    x, y, z = v
    lon = math.degrees(math.atan2(y, x))
    rho = math.hypot(x, y)
    pb = math.atan2(rho, abs(z))               # authalic colatitude from the nearer pole, stable
    psi = geodetic_colat_from_authalic(pb)
    lat = 90.0 - math.degrees(psi)
    if z < 0:
        lat = -lat
    return (lon, lat)


# ---- vector helpers --------------------------------------------------------------------------------------------

def dot(a, b):
    return a[0] * b[0] + a[1] * b[1] + a[2] * b[2]


def cross(a, b):
    return (a[1] * b[2] - a[2] * b[1], a[2] * b[0] - a[0] * b[2], a[0] * b[1] - a[1] * b[0])


def sub(a, b):
    return (a[0] - b[0], a[1] - b[1], a[2] - b[2])


def add(a, b):
    return (a[0] + b[0], a[1] + b[1], a[2] + b[2])


def scale(a, s):
    return (a[0] * s, a[1] * s, a[2] * s)


def norm(a):
    return math.sqrt(dot(a, a))


def unit(a):
    n = norm(a)
    return (a[0] / n, a[1] / n, a[2] / n)


def angle(a, b):
    """great-circle distance, accurate for tiny and for large angles"""
    return math.atan2(norm(cross(a, b)), dot(a, b))


def small_angle(a, b):
    """great-circle distance via the chord (best for nearby points)"""
    d = norm(sub(a, b))
    return 2 * math.asin(min(1.0, d / 2))


def lerp_unit(a, b, t):
    """point on the great circle a->b at fraction t (a, b not antipodal); exact enough via normalised chord interpolation
    corrected by slerp weights"""
    om = angle(a, b)
    if om < 1e-9:
        return unit(add(scale(a, 1 - t), scale(b, t)))
    so = math.sin(om)
    return unit(add(scale(a, math.sin((1 - t) * om) / so), scale(b, math.sin(t * om) / so)))


def centroid(ring):
    sx = sy = sz = 0.0
    for v in ring:
        sx += v[0]
        sy += v[1]
        sz += v[2]
    return unit((sx, sy, sz))


def tri_area(c, a, b):
    """signed area of the spherical triangle (c, a, b); accurate for tiny triangles"""
    num = dot(c, cross(sub(a, c), sub(b, c)))
    den = 1 + dot(c, a) + dot(a, b) + dot(b, c)
    return 2 * math.atan2(num, den)


def ring_area(ring, c=None):
    """signed area enclosed by the closed polyline of great-circle arcs (positive = counter-clockwise seen from outside)"""
    if c is None:
        c = centroid(ring)
    n = len(ring)
    tot = 0.0
    for i in range(n):
        tot += tri_area(c, ring[i], ring[(i + 1) % n])
    return tot


def basis(p):
    """orthonormal tangent basis at p"""
    ax = (0.0, 0.0, 1.0) if abs(p[2]) < 0.9 else (1.0, 0.0, 0.0)
    e1 = unit(cross(ax, p))
    e2 = cross(p, e1)
    return e1, e2


def gnomonic(p, e1, e2, v):
    """gnomonic image of v in the tangent plane at p (great circles -> straight lines); None if v is >= ~87 deg away"""
    d = sub(v, p)
    h = dot(d, d) / 2                 # 1 - v.p
    if h > 0.95:
        return None
    g = add(d, scale(p, h))
    k = 1 / (1 - h)
    return (dot(g, e1) * k, dot(g, e2) * k)


def locate(p, ring):
    """(winding number, angular distance from p to the ring polyline).  winding is None when the ring is not in p's hemisphere."""
    e1, e2 = basis(p)
    pts = []
    for v in ring:
        g = gnomonic(p, e1, e2, v)
        if g is None:
            return None, None
        pts.append(g)
    n = len(pts)
    tot = 0.0
    dmin = float('inf')
    for i in range(n):
        x1, y1 = pts[i]
        x2, y2 = pts[(i + 1) % n]
        tot += math.atan2(x1 * y2 - x2 * y1, x1 * x2 + y1 * y2)
        # distance from the origin to segment (x1,y1)-(x2,y2)
        dx, dy = x2 - x1, y2 - y1
        L2 = dx * dx + dy * dy
        if L2 == 0:
            d = math.hypot(x1, y1)
        else:
            t = -(x1 * dx + y1 * dy) / L2
            t = 0.0 if t < 0 else (1.0 if t > 1 else t)
            d = math.hypot(x1 + t * dx, y1 + t * dy)
        if d < dmin:
            dmin = d
    return int(round(tot / (2 * PI))), math.atan(dmin)


def sagitta(coarse, fine):
    """largest distance of the 2K-ring's extra samples from the K-ring's chords (both as unit-vector lists aligned so that
    fine[2i] == coarse[i]); a measure of how far the K-polyline is from the true edge"""
    n = len(coarse)
    worst = 0.0
    for i in range(n):
        a = coarse[i]
        b = coarse[(i + 1) % n]
        m = fine[(2 * i + 1) % (2 * n)]
        # distance of m from the chord a-b, in difference form (a x b itself is useless for nearby points: its direction is
        # known only to 1e-16/|a-b|)
        ab = sub(b, a)
        lab = norm(ab)
        if lab == 0:
            continue
        d = norm(cross(sub(m, a), ab)) / lab
        if d > worst:
            worst = d
    return math.asin(min(1.0, worst))


def width(r):
    """sqrt of the cell area on the unit sphere"""
    n = 12 if r == 0 else 60 * 4 ** (r - 1)
    return math.sqrt(4 * PI / n)


def align(corners, ring):
    """indices in `ring` of the vertices nearest to each of `corners` (ring conventions are discovered, not assumed)"""
    out = []
    for c in corners:
        best = None
        for i, v in enumerate(ring):
            d = norm(sub(c, v))
            if best is None or d < best[0]:
                best = (d, i)
        out.append(best)
    return out


def wrap_lon(lon):
    return (lon + 180.0) % 360.0 - 180.0
