#!/venv/bin/python
"""Regenerates /verif/MANIFEST.json from the table below and validates it against the schema (if jsonschema is there)."""
import json
import os
import sys

HERE = os.path.dirname(os.path.dirname(os.path.abspath(__file__)))

# pid -> (level category, technique, level text, level note, design ref)
CHECKS = {
    'C01': ('exploration',
            'exhaustive enumeration of a structured point alphabet derived from the explored cell tree (E1+E2) through the real lonlat_to_cell, refuting spherical containment oracle on the published ring',
            'For every explored cell (all cells of resolutions <= 4/6, digit-pattern and special-site cells to resolution 29) the centre and all corner/edge-midpoint points at three insets, plus log-scaled '
            'neighbourhoods of the 62 frame points, poles and antimeridian at every resolution, periodic copies and exact poles: the call must not raise, return the requested resolution, and the ring from '
            'cell_to_boundary must enclose the point (edge ties accepted and counted).',
            'Finite alphabet of inputs, not all reals: relies on piecewise smoothness between alphabet points. Oracle trusts vf/sphere.py (closed-form authalic latitude, winding number in the gnomonic plane).',
            'DESIGN.md 2/E2, 3/C01'),
    'C02': ('model_checking',
            'explicit-state BFS of the cell tree (real cell_to_children semantics via the reference tree) evaluating the id->centre->id round trip with the real functions in every state',
            'Every cell of resolutions 0..5 (quick) / 0..7 (thorough, 327 672 cells) plus digit-pattern and special-site cells at every resolution to 29: centre coordinates in range, strictly inside the own ring, and mapping back to the same id.',
            'Above the exhaustive bound only pattern- and site-directed cells. Strict interior judged by the independent oracle with a 1e-3 width clearance.',
            'DESIGN.md 3/C02'),
    'C03': ('model_checking',
            'complete enumeration of all cells of a level with a manifold certificate (directed-edge matching, Euler characteristic, area sum) + adjacency-graph BFS through the real lonlat_to_cell at deeper levels',
            'All cells of every resolution 0..6 (quick) / 0..7 (thorough): each directed edge once, reverse once in another cell, shared interior samples equal, V-E+F=2, areas sum to 4 pi. Resolutions 2..29: from seed cells '
            'the neighbour across each edge is looked up with lonlat_to_cell just beyond it and must carry the reversed edge; adjacency symmetric; vertex fans close after 3-5 cells with angles 2 pi.',
            'Beyond the exhaustive levels only neighbourhoods of seed cells (poles, antimeridian, frame points, digit patterns) are certified.',
            'DESIGN.md 3/C03'),
    'C04': ('exploration',
            'enumeration of explored cells with converged (Richardson-extrapolated) ring areas against 4 pi / N',
            'Every cell of resolutions 0..4 (quick) / 0..5 (thorough) and digit-pattern / special-site cells to resolution 29: ring area at K, 4K, 16K(, 64K) segments per edge extrapolated to K -> infinity equals '
            '4 pi / get_num_cells(r) within 1e-6 (+ coordinate rounding at r >= 20).',
            'Closed-form authalic latitude oracle; discretisation error assumed ~K^-2 (measured).',
            'DESIGN.md 3/C04'),
    'C07': ('model_checking',
            'explicit-state exploration of all descent paths (4 levels, plus 16 extreme 12-level paths) from every explored cell with the real cell_to_children / cell_to_lonlat',
            'Every cell of resolutions 0..3 (+3 levels at 4) quick / 0..5 thorough and digit-pattern cells to 28: every descendant within 1.5 ancestor widths; every ancestor of the cells of the special-site point alphabet within 2.5 widths; exact nesting of faces and segments.',
            'Descents deeper than 4 levels only along the 16 extreme digit paths.',
            'DESIGN.md 3/C07'),
    'C11': ('exploration',
            'enumeration of the C01 point alphabet and of explored cells against distance/shape bounds',
            'Quantisation distance <= 1.0 width for the whole point alphabet at every resolution; five distinct corners at 0.35..1.0 widths from the centre for every cell of resolutions 2..5/6 and seeds to 29.',
            'Finite alphabet; great-circle distances on the closed-form authalic sphere.',
            'DESIGN.md 3/C11'),
    'C12': ('model_checking',
            'exhaustive enumeration cells x 25 option configurations through the real cell_to_boundary',
            'Every cell of resolutions 0..4 (quick) / 0..6 (thorough), pattern cells and all pole / antimeridian / frame-point cells to resolution 29 x every closed_ring/segments combination: vertex counts, closure, no repeats, '
            'latitude range, simple and counter-clockwise, corners independent of segments, longitude continuity unless a pole is in/on the cell, options not mutated.',
            'Simplicity decided in the gnomonic plane at the ring centroid. Cells outside the enumerated set are not covered.',
            'DESIGN.md 3/C12'),
    'C13': ('exploration',
            'structured lattice enumeration through the real forward/inverse projection on all 12 faces',
            'Fibonacci lattice of 2e5 (quick) / 1e6 (thorough) directions and log-scaled neighbourhoods of the 62 frame points on nearest and adjacent faces; polar lattices and 1e-12..1e-3 approaches to every seam, edge, vertex, centre and mirror apex on all faces; cold and warm caches.',
            'Finite lattice; smoothness inside each of the 240 triangle pieces assumed between lattice points.',
            'DESIGN.md 3/C13'),
    'C14': ('exploration',
            'catalogue enumeration of planar polygons on all 12 faces, unprojected with the real inverse and integrated with an independent spherical area formula',
            '12 faces x ~930 (quick) / ~1860 (thorough) triangles/quads at 5 sizes centred on the centre, all seams, edges (straddling and beyond) and vertices: spherical area = planar area x global constant within 1e-6.',
            'Polylines get vertices at every seam/edge crossing (the map is only piecewise smooth); K^-2 extrapolation.',
            'DESIGN.md 3/C14'),
    'C15': ('exploration',
            'dense 1-D grid enumeration through the real latitude conversions against the closed-form WGS84 authalic latitude',
            '1e6 (quick) / 4e6 (thorough) uniformly spaced latitudes plus log ladders to 0 and +-90: accuracy 1e-10, oddness, fixed points, strict monotonicity between consecutive points, inverse round trip 1e-12, also through from_lonlat/to_lonlat.',
            'Grid, not all reals: a 6-term trigonometric polynomial has no feature narrower than the spacing.',
            'DESIGN.md 3/C15'),
    'C05': ('model_checking',
            'explicit-state enumeration of the cell tree on the real codec, reference-codec conformance on every edge',
            'Every (face, segment, S) of resolutions 0..7 (quick) / 0..9 (thorough) and digit-pattern seeds for every deeper '
            'resolution up to 30 are encoded and decoded by the implementation and by an independent reference codec; range, '
            'injectivity, level counts and rejection of out-of-range S are checked in every state. Exhaustive below the bound, '
            'pattern-directed above it.',
            'Trusts vf/refmodel.py (60 lines, written from the layout comment). Above the exhaustive bound only S values with the '
            'G1 digit patterns are visited.',
            'DESIGN.md 3/C05'),
    'C06': ('model_checking',
            'explicit-state BFS of the cell tree with the real cell_to_children/cell_to_parent as transition functions, reference tuple-path tree as oracle',
            'Every cell of resolutions -1..5 (quick) / -1..6 (thorough) and digit-pattern seeds at every deeper resolution: all parent levels, all child levels up to +3, '
            'defaults, composition, contiguity and the error cases are evaluated in every state and compared with the reference tree on every edge.',
            'Trusts vf/refmodel.py; child fan-outs deeper than +3 levels are covered by composition only; above the exhaustive bound only G1 digit patterns.',
            'DESIGN.md 3/C06'),
    'C08': ('model_checking',
            'explicit-state BFS over the antichain lattice (remove/split edits) plus overlap edits, real compact run on every state, canonical-form coverage oracle',
            'All antichains within edit distance 5 (quick) / 6 (thorough) of the world cell (splits down to resolution 3), plus mixed-face and deep (res 0..28) bases, each also with '
            'overlapping ancestors/descendants added, are compacted by the real code in several orders; the covered region must equal the input region.',
            'Region equality is decided through the unique canonical antichain (reference compaction) and literally through uncompact for small cases. Inputs outside the explored lattice are not covered.',
            'DESIGN.md 3/C08'),
    'C09': ('model_checking',
            'explicit-state BFS over the antichain lattice (remove/split edits), real compact run on every state in many input orders, set-based reference compaction as oracle',
            'All antichains within edit distance 5 (quick) / 6 (thorough) of the world cell plus mixed-face and deep bases: output must be duplicate-free, equal to the canonical set, '
            'independent of order/duplication (all permutations for <= 4/5 cells) and idempotent.',
            'Trusts the reference compaction (20 lines). Antichains outside the explored lattice are not covered.',
            'DESIGN.md 3/C09'),
    'C10': ('model_checking',
            'exhaustive enumeration of all short cell lists over a menu x all targets, plus antichain-lattice states, against reference descendants',
            'All lists of length 0..3 over a 16-cell menu spanning every aperture and the deepest levels x every target 0..29 (expansions <= 4^6, or must-raise cases), and every '
            'lattice state as a list: blocks, order, multiplicity, resolution, parent mapping, error behaviour and argument immutability.',
            'Within a block only set equality is required. Larger expansions are skipped (counted).',
            'DESIGN.md 3/C10'),
    'C16': ('model_checking',
            'stateless exploration of the real code under a controlled scheduler (sys.monitoring line/instruction events + fork; B in a real second thread): every one-preemption schedule of every menu pair, and every two-preemption schedule (A | B | A | B) of the short calls within stated occurrence caps',
            'For every pair (A, B) of a call menu, from a cold and a warm library, every line event of A inside the package is taken as a preemption point at which B runs to completion before A resumes '
            '(thorough: all 12x12 pairs and bytecode-instruction granularity for short calls); both values must be bit-identical to the pristine single calls and nothing may raise.',
            'Preemption bound 1 for every pair, bound 2 (A suspended at i, B suspended at j, A completes, B completes) for the short calls only; three or more preemptions and memory-model effects of free-threaded builds are not explored; calls and arguments limited to the menu (all forced to collide on the same face edge).',
            'DESIGN.md 2/E4, 3/C16'),
    'C17': ('model_checking',
            'explicit-state BFS over call histories on the real library (fork per transition, canonical state hashing), pristine single-call values as oracle',
            'All histories of length 1 over a 738-event menu that owns every face x triangle x direct/reflected cache slot, length 2 over 354 (quick) / all (thorough) events, length 3 over a sub-menu, '
            'plus 4 saturation histories; every result compared bit-for-bit with the pristine single call, arguments compared before/after, returned lists mutated and calls repeated.',
            'History depth bounded (2-3 plus saturation); arguments limited to the menu; state identity relies on the generic canonical walk.',
            'DESIGN.md 2/E5, 3/C17'),
    'C18': ('model_checking',
            'exhaustive enumeration of (orientation, level, index) through the real index->anchor->pentagon->IJ->index chain',
            'All indices of all 6 orientations at levels 1..7 (quick) / 1..10 (thorough) and digit-window seeds at levels up to 28: round trip, pairwise distinct cells, equal areas summing to the triangle, prefix coherence.',
            'Above the exhaustive bound only windowed digit patterns; non-overlap of pentagons is certified by C03 rather than here.',
            'DESIGN.md 3/C18'),
    'C19': ('exploration',
            'lane-exhaustive enumeration of 64-bit values through the real hex conversion',
            'All 65536 values of each 16-bit lane over four backgrounds, all single-bit/nibble perturbations and boundary values, and every valid id of resolutions <= 6/8 round-trip, '
            'format, injectivity and tolerant parsing.',
            'The full 2^64 domain is not enumerable; relies on the digit-wise structure of the conversion.',
            'DESIGN.md 3/C19'),
    'C20': ('model_checking',
            'exhaustive enumeration of all resolution pairs and of the hierarchy to resolution 7/8 against the real counting functions',
            'All 32x32 resolution pairs, every cell of resolutions -1..3 with all enumerable child levels, seeds at every level to 29, whole levels expanded from the world and re-summed over coarser levels, areas 0..30.',
            'Sphere area constant taken from the package documentation (authalic radius 6371007.2 m).',
            'DESIGN.md 3/C20'),
}

PENDING_REASON = 'check not built yet in this session (planned in DESIGN.md section 3; claimed as soon as its check is committed)'


def main():
    props = [json.loads(l)['id'] for l in open(os.path.join(HERE, 'properties.jsonl')) if l.strip()]
    checks = []
    for pid in props:
        if pid not in CHECKS:
            continue
        cat, tech, text, note, ref = CHECKS[pid]
        checks.append({
            'property_id': pid,
            'quick_cmd': f'/venv/bin/python run_check.py {pid} --tier quick',
            'thorough_cmd': f'/venv/bin/python run_check.py {pid} --tier thorough',
            'evidence_file': f'/verif/evidence/{pid}.json',
            'replay_cmd_template': f'/venv/bin/python run_check.py {pid} --replay {{path}}',
            'engine': 'vf',
            'level_claimed': {'category': cat, 'text': text, 'design_ref': ref},
            'level_note': note,
            'technique': tech,
        })
    man = {
        'version': 1,
        'setup_cmd': '/venv/bin/python tools/selftest.py',
        'hooks': {
            'guard': 'A5_VERIF',
            'enable': 'no source hooks are needed: the explorers drive the unmodified package (sys.monitoring + fork for schedules, fork for histories); checks import a5 from /repo\'s working tree',
            'baseline_off_cmd': 'cd /repo && /venv/bin/python -m pytest -ra -q -p no:cacheprovider --timeout=900 --continue-on-collection-errors',
            'source_commits': [],
            'add_only': True,
        },
        'engines': [{
            'name': 'vf',
            'path': '/verif/vf',
            'serves_properties': [c['property_id'] for c in checks],
            'kind_free_text': 'hand-written bounded exhaustive explorers in pure Python driving the real a5 functions (cell-tree BFS, antichain-lattice BFS, '
                              'one-preemption schedule enumeration via sys.monitoring+fork, call-history BFS with state hashing via fork) with independent reference models as oracles',
        }],
        'checks': checks,
        'not_applicable': [{'property_id': p, 'reason': NA.get(p, PENDING_REASON)} for p in props if p not in CHECKS],
        'notes': 'All checks: /venv/bin/python run_check.py <ID> --tier quick|thorough [--replay file]; evidence in /verif/evidence; '
                 'known findings in /verif/known_findings.json; seeded breaking changes in /verif/seeded.',
    }
    path = os.path.join(HERE, 'MANIFEST.json')
    with open(path, 'w') as fh:
        json.dump(man, fh, indent=1)
        fh.write('\n')
    try:
        import jsonschema
        schema = json.load(open('/root/.vp/MANIFEST.schema.json'))
        jsonschema.validate(man, schema)
        print('MANIFEST.json valid;', len(checks), 'checks,', len(man['not_applicable']), 'not claimed')
    except ImportError:
        print('MANIFEST.json written (jsonschema not available for validation);', len(checks), 'checks')


NA = {}

if __name__ == '__main__':
    main()
