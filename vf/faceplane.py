"""Face-plane geometry of one dodecahedron face as the projection sees it (independent constants).

Polar coordinates (rho, gamma) about the face centre; the five face edges have outward normals at gamma = k * 72 deg,
the face vertices are at 36 + k * 72 deg.  Inradius d_e = tan(angle between face centre and edge midpoint) = (sqrt(5)-1)/2.
"""
import math

D_EDGE = (math.sqrt(5) - 1) / 2
A36 = math.pi / 5
A72 = 2 * math.pi / 5
R_VERTEX = D_EDGE / math.cos(A36)
PENTAGON_AREA = 5 * D_EDGE * D_EDGE * math.tan(A36)


def to_local(x, y, k):
    """coordinates along the outward normal of edge k and along the edge"""
    c, s = math.cos(-k * A72), math.sin(-k * A72)
    return (c * x - s * y, s * x + c * y)


def from_local(u, t, k):
    c, s = math.cos(k * A72), math.sin(k * A72)
    return (c * u - s * t, s * u + c * t)


def in_pentagon(x, y, margin=0.0):
    return all(to_local(x, y, k)[0] <= D_EDGE - margin for k in range(5))


def in_mirror(x, y, k, margin=0.0):
    """inside the triangle spanned by edge k and the mirror image of the centre in that edge"""
    u, t = to_local(x, y, k)
    return u >= D_EDGE + margin and abs(t) <= (2 * D_EDGE - u) * math.tan(A36) - margin


def in_domain(x, y, margin=0.0):
    if in_pentagon(x, y, margin):
        return True
    return any(in_mirror(x, y, k, margin) for k in range(5))


def seam_rays():
    """the 10 azimuths where the projection switches triangles"""
    return [j * A36 for j in range(10)]
