"""C02 - a cell's centre maps back to the same cell (E1 hierarchy explorer with the geometric oracle).

States: cells.  Transitions: the id -> centre -> id round trip (real cell_to_lonlat, lonlat_to_cell) and child edges.
"""
import math
from vf import common, refmodel as rm, seeds, sphere as sp, geo

PID = 'C02'
LEVEL = 'model_checking'


def check_cell(acc, a5, c, r, label):
    acc.n['states'] += 1
    case = {'cell': hex(c), 'r': r}
    k = f'c02:{label}'
    try:
        ll = a5.cell_to_lonlat(c)
    except Exception as e:
        acc.violation(k + ':centre-raises', f'cell_to_lonlat({c:#x}) raised {e!r}', case)
        return
    acc.n['transitions'] += 1
    lon, lat = ll
    if not (isinstance(lon, float) and isinstance(lat, float) and math.isfinite(lon) and math.isfinite(lat)):
        acc.violation(k + ':centre-not-finite', f'cell_to_lonlat({c:#x}) = {ll!r}', case)
        return
    if not (-180.0 <= lon <= 180.0):
        acc.violation(k + ':lon-range', f'cell_to_lonlat({c:#x}) has longitude {lon!r} outside [-180, 180]', case)
        return
    if not (-90.0 <= lat <= 90.0):
        acc.violation(k + ':lat-range', f'cell_to_lonlat({c:#x}) has latitude {lat!r} outside [-90, 90]', case)
        return
    # strictly inside the own ring
    K = 4 if r < 6 else 1
    try:
        rg = geo.ring(c, K, cache=False)
    except Exception as e:
        acc.violation(k + ':boundary-raises', f'cell_to_boundary({c:#x}) raised {e!r}', case)
        return
    p = sp.vec((lon, lat))
    w, d = sp.locate(p, rg)
    wd = sp.width(r)
    if w is None or w == 0 or d <= 1e-3 * wd + 2 * geo.sag_bound(r, K):
        acc.violation(k + ':centre-not-inside', f'centre {ll!r} of {c:#x} is not strictly inside its ring (winding {w}, distance {d!r} rad, width {wd:.3e})', case)
        return
    acc.maximum('min_clearance_in_widths_neg', -d / wd, hex(c))
    try:
        back = a5.lonlat_to_cell((lon, lat), r)
    except Exception as e:
        acc.violation(k + ':back-raises', f'lonlat_to_cell({ll!r}, {r}) raised {e!r}', case)
        return
    acc.n['transitions'] += 1
    if back != c:
        acc.violation(k + ':roundtrip', f'centre {ll!r} of {c:#x} (res {r}) maps to {back:#x}', case)
        return
    acc.n['validated'] += 1


def work_paths(task):
    a5 = geo.api()
    acc = common.Acc()
    for path in task:
        check_cell(acc, a5, rm.encode(path), rm.res(path), '/'.join(map(str, path)))
        acc.strata[f'r{rm.res(path):02d}'] += 1
    acc.n['nontrivial'] = acc.n['validated']
    return acc


def work_site(task):
    """G2: cells found by lonlat_to_cell at and around a special site, every resolution, plus their children"""
    a5 = geo.api()
    kind, lon, lat, ndir, scales, sub = task
    acc = common.Acc()
    seen = set()
    pts = geo.neighbourhood(lon, lat, ndir, scales)
    for r in range(0, 30):
        for p in pts:
            try:
                c = a5.lonlat_to_cell(p, r)
            except Exception as e:
                acc.violation(f'c02:site-raises:{kind}:{lon:.3f},{lat:.3f}:r={r}', f'lonlat_to_cell({p!r}, {r}) raised {e!r}', {'point': list(p), 'r': r})
                continue
            acc.n['transitions'] += 1
            if c in seen:
                continue
            seen.add(c)
            path = rm.decode(c)
            if path is None or rm.res(path) != r:
                acc.violation(f'c02:site-bad-id:{kind}:r={r}:{c:#x}', f'lonlat_to_cell({p!r}, {r}) returned {c:#x}, not a resolution-{r} id', {'point': list(p), 'r': r})
                continue
            cells = [path]
            if sub and r < 29:
                cells += rm.children(path)
            for q in cells:
                cq = rm.encode(q)
                if q is not path:
                    if cq in seen:
                        continue
                    seen.add(cq)
                check_cell(acc, a5, cq, rm.res(q), '/'.join(map(str, q)))
                acc.strata[f'site_{kind}'] += 1
    acc.n['nontrivial'] = acc.n['validated']
    return acc


def run(tier, t0):
    acc = common.Acc()
    R = 5 if tier == 'quick' else 7
    tasks = []
    for r in range(0, R + 1):
        for ch in common.chunks(rm.interleaved(rm.descendants((), r)), 600):
            tasks.append((work_paths, ch))
    level = 'basic' if tier == 'quick' else 'single'
    deep = []
    for r in range(R + 1, 30):
        for f in range(12):
            for n in range(5):
                for d in seeds.g1_patterns(r - 1, level):
                    p = (f, n) + d
                    deep.append(p)
                    if r < 29 and (tier == 'thorough' or (f + n + r) % 5 == 0):
                        deep.extend(rm.children(p))
    deep = rm.interleaved(set(deep))
    for ch in common.chunks(deep, 500):
        tasks.append((work_paths, ch))
    if tier == 'quick':
        ndir, scales = 4, [1e-12, 1e-9, 1e-6, 1e-3, 1e-1]
    else:
        ndir, scales = 12, geo.SCALES
    for kind, lon, lat in geo.special_sites(tier, common.seed()):
        tasks.append((work_site, (kind, lon, lat, ndir, scales, tier == 'thorough')))
    tasks = common.rotate(tasks, common.seed())
    for part in common.pmap(_dispatch, tasks):
        acc.merge(part)
    acc.sample({'cell': hex(rm.encode((7, 3, 1, 2))), 'steps': 'cell_to_lonlat -> range + strictly-inside-own-ring (independent winding test) -> lonlat_to_cell == cell'})
    acc.sample({'seed family': 'G1 digit patterns at every (face, segment), resolutions %d..29; G2 cells found around the 62 frame points, poles and antimeridian at every resolution' % (R + 1)})
    rule = (f'every cell of resolutions 0..{R}; G1[{level}] digit-pattern cells (plus children) at resolutions {R + 1}..29; cells returned by lonlat_to_cell in log-scaled neighbourhoods '
            f'({ndir} directions x {len(scales)} scales) of 88 special sites at every resolution; non-trivial = cells whose full round trip held')
    return common.finish(PID, LEVEL, tier, acc, t0, rule, [
        'strict interior = winding number 1 in the independent spherical oracle and more than 1e-3 cell widths from the ring polyline',
        'closed-form WGS84 authalic latitude (vf/sphere.py) for all lon/lat -> sphere conversions of the oracle',
        f'above resolution {R} only pattern- and site-directed cells are visited',
    ], extra={'exhaustive_to_resolution': R}, exhaustive=True)


def _dispatch(t):
    return t[0](t[1])


def replay(case):
    acc = common.Acc()
    a5 = geo.api()
    if 'cell' in case:
        c = int(case['cell'], 16)
        check_cell(acc, a5, c, case['r'], 'replay')
    else:
        c = a5.lonlat_to_cell(tuple(case['point']), case['r'])
        check_cell(acc, a5, c, case['r'], 'replay')
    return [(k, w) for k, w, _ in acc.violations]
