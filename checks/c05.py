"""C05 - cell ids are a faithful 64-bit code (E1 codec explorer).

States: cells (face, segment, S, resolution).  Transitions: encode and decode edges, each run on the implementation
and on the reference codec (vf.refmodel, written from the layout comment).
"""
import time
from vf import common, refmodel as rm, seeds

PID = 'C05'
LEVEL = 'model_checking'


def _lib():
    from a5.core import serialization as ser
    from a5.core.origin import origins
    from a5.core.utils import A5Cell
    return ser, origins, A5Cell


def discover_segment_map(acc):
    """n(f, seg): the id-level segment number of public segment `seg` on face f, read off resolution-1 ids.
    It must be a bijection on 0..4 for every face; it is then required to be the same at every resolution."""
    ser, origins, A5Cell = _lib()
    segmap = {}
    for f in range(12):
        ns = []
        for seg in range(5):
            try:
                idv = ser.serialize(A5Cell(origin=origins[f], segment=seg, S=0, resolution=1))
            except Exception as e:  # noqa
                acc.violation(f'enc-raises:r=1:f={f}:seg={seg}', f'serialize raised {e!r} at resolution 1', {'f': f, 'seg': seg, 'S': 0, 'r': 1})
                ns.append(None)
                continue
            ns.append((idv >> 58) - 5 * f)
        if sorted(x for x in ns if x is not None) != [0, 1, 2, 3, 4]:
            acc.violation(f'segmap-not-bijective:f={f}', f'segments of face {f} map to id slots {ns}', {'f': f, 'r': 1, 'seg': 0, 'S': 0})
        for seg in range(5):
            segmap[(f, seg)] = ns[seg] if ns[seg] is not None else seg
    return segmap


def check_cell(acc, lib, segmap, f, seg, S, r, idset=None):
    """all codec obligations for one cell; returns the id or None"""
    ser, origins, A5Cell = lib
    case = {'f': f, 'seg': seg, 'S': S, 'r': r}
    acc.n['states'] += 1
    n = segmap[(f, seg)]
    path = rm.path_from(f, n, S, r)
    if r == 0:
        acc.n['states'] -= 1 if seg else 0      # five spellings of one cell
    try:
        want = rm.encode(path)
    except OverflowError:
        want = None
    try:
        arg = A5Cell(origin=origins[f], segment=seg, S=S, resolution=r)
        idv = ser.serialize(arg)
        if (arg['origin'].id, arg['segment'], arg['S'], arg['resolution']) != (f, seg, S, r):
            acc.violation(f'enc-mutates-arg:r={r}:f={f}:seg={seg}:S={S}', f'serialize modified the cell it was given: now {dict(arg, origin=arg["origin"].id)}', case)
            return None
    except Exception as e:  # the statement: every cell with r in 0..MAX_RESOLUTION encodes
        msg = str(e)
        acc.violation('enc-raises:r=30' if r == 30 else f'enc-raises:r={r}:f={f}:seg={seg}:S={S}',
                      f'serialize(face={f}, segment={seg}, S={S}, resolution={r}) raised {type(e).__name__}({msg})', case)
        return None
    acc.n['transitions'] += 1
    if not isinstance(idv, int) or not (1 <= idv < (1 << 64)):
        acc.violation(f'enc-range:r={r}:f={f}:seg={seg}:S={S}', f'id {idv!r} outside [1, 2^64)', case)
        return None
    if want is None:
        acc.violation(f'enc-silent:r={r}:f={f}:seg={seg}:S={S}', f'resolution {r} produced id {idv:#x} although it cannot be represented', case)
        return idv
    if idv != want:
        acc.violation(f'enc-mismatch:r={r}:f={f}:seg={seg}:S={S}', f'serialize gave {idv:#018x}, layout says {want:#018x}', case)
        return idv
    acc.n['validated'] += 1
    # the same cell written with its fields in another order (a mapping has no field order): every 5th state, three orders in turn
    if (S + r + f) % 5 == 0:
        order = (('resolution', 'S', 'segment', 'origin'), ('S', 'origin', 'resolution', 'segment'), ('segment', 'resolution', 'origin', 'S'))[(S + f) % 3]
        vals = {'origin': origins[f], 'segment': seg, 'S': S, 'resolution': r}
        try:
            other = ser.serialize(A5Cell(**{kk: vals[kk] for kk in order}))
        except Exception as e:
            acc.violation(f'enc-field-order-raises:r={r}:f={f}:seg={seg}:S={S}', f'the same cell with its fields given in the order {order} raised {e!r}', dict(case, order=list(order)))
            return idv
        acc.n['field_order_variants'] += 1
        if other != idv:
            acc.violation(f'enc-field-order:r={r}:f={f}:seg={seg}:S={S}', f'the same cell with its fields given in the order {order} encodes to {other:#x} instead of {idv:#x}', dict(case, order=list(order)))
            return idv
    # decode side
    try:
        gr = ser.get_resolution(idv)
        first = ser.deserialize(idv)
        # a caller may edit the decoded cell; decoding the same id again must not be affected
        first['segment'] = (first['segment'] + 1) % 5
        first['S'] = first['S'] + 1
        cell = ser.deserialize(idv)
        back = ser.serialize(cell)
    except Exception as e:
        acc.violation(f'dec-raises:r={r}:f={f}:seg={seg}:S={S}', f'decoding {idv:#x} raised {e!r}', case)
        return idv
    acc.n['transitions'] += 1
    got = (cell['origin'].id, cell['segment'], cell['S'], cell['resolution'])
    exp = (f, seg if r >= 1 else 0, S, r)
    if r == 0:
        got = (got[0], 0, got[2], got[3])  # the segment of a resolution-0 cell carries no information
    if gr != r or got != exp or back != idv or rm.decode(idv) != path:
        acc.violation(f'dec-mismatch:r={r}:f={f}:seg={seg}:S={S}',
                      f'id {idv:#x}: get_resolution={gr}, deserialize={got}, expected {exp}, re-encoded {back:#x}', case)
        return idv
    acc.n['validated'] += 1
    if idset is not None:
        idset.add(idv)
    return idv


def check_rejects(acc, lib, f, seg, r):
    """S outside [0, 4^(r-1)) must raise, never silently give an id"""
    ser, origins, A5Cell = lib
    for S in (4 ** (r - 1), 4 ** (r - 1) + 1, 1 << 58, (1 << 64) - 1):
      for attempt in (1, 2):           # every rejected request is repeated at once (a caller's retry): it must be rejected again
        acc.n['states'] += 1
        try:
            idv = ser.serialize(A5Cell(origin=origins[f], segment=seg, S=S, resolution=r))
        except (ValueError, OverflowError):
            acc.n['transitions'] += 1
            acc.n['validated'] += 1
            acc.n['rejected'] += 1
            continue
        except Exception as e:
            acc.violation(f'reject-wrong-exc:r={r}:S={S}', f'out-of-range S raised {e!r} instead of ValueError', {'f': f, 'seg': seg, 'S': S, 'r': r, 'reject': True})
            continue
        acc.violation(f'reject-silent:r={r}:f={f}:seg={seg}:S={S}' + (':retry' if attempt == 2 else ''),
                      f'S={S} does not fit resolution {r} but serialize returned {idv:#x}' + (' when the rejected request was repeated' if attempt == 2 else ''), {'f': f, 'seg': seg, 'S': S, 'r': r, 'reject': True})


def work_exhaustive(task):
    f, r, segmap = task
    acc = common.Acc()
    lib = _lib()
    ids = set()
    cnt = 0
    if r == 0:
        # the segment of a resolution-0 cell carries no information, but callers (lonlat_to_cell itself) pass any of 0..4
        for seg in range(5):
            check_cell(acc, lib, segmap, f, seg, 0, 0, ids)
        cnt = 1
    else:
        for seg in range(5):
            for S in range(4 ** (r - 1) if r >= 2 else 1):
                check_cell(acc, lib, segmap, f, seg, S, r, ids)
                cnt += 1
            if r >= 2:
                check_rejects(acc, lib, f, seg, r)
    acc.n['nontrivial'] += len(ids)
    acc.ids = (f, r, ids, cnt)
    if f == 3 and r >= 2:
        acc.sample({'face': f, 'segment': 2, 'S': 4 ** (r - 1) - 1, 'resolution': r,
                    'id': hex(rm.encode(rm.path_from(f, segmap[(f, 2)], 4 ** (r - 1) - 1, r)))})
    return acc


def work_deep(task):
    f, r, level, segmap = task
    acc = common.Acc()
    lib = _lib()
    ids = set()
    cnt = 0
    k = r - 1
    for seg in range(5):
        for digits in seeds.g1_patterns(k, level):
            check_cell(acc, lib, segmap, f, seg, seeds.digits_to_s(digits), r, ids)
            cnt += 1
            if r == 30:
                # history: a valid resolution-29 cell encoded right after the (rejected) resolution-30 request must still match the layout
                before = len(acc.vmap)
                check_cell(acc, lib, segmap, f, seg, seeds.digits_to_s(digits[:-1]), 29)
                acc.n['states'] -= 1
                if len(acc.vmap) > before:
                    acc.notes.append('a resolution-29 encode went wrong right after a rejected resolution-30 encode')
        if r <= 29:
            check_rejects(acc, lib, f, seg, r)
    if len(ids) != cnt and not acc.violations:
        acc.violation(f'not-injective:r={r}:f={f}', f'{cnt} distinct cells of face {f} at resolution {r} gave {len(ids)} ids', {'f': f, 'r': r, 'seg': 0, 'S': 0})
    acc.n['nontrivial'] += len(ids)
    acc.strata[f'deep_r{r:02d}'] += cnt
    return acc


def run(tier, t0):
    import a5
    from a5.core import serialization as ser
    acc = common.Acc()
    segmap = discover_segment_map(acc)
    R = 7 if tier == 'quick' else 9
    tasks = [(f, r, segmap) for r in range(0, R + 1) for f in range(12)]
    tasks = common.rotate(tasks, common.seed())
    level_ids = {r: set() for r in range(0, R + 1)}
    level_cnt = {r: 0 for r in range(0, R + 1)}
    for part in common.pmap(work_exhaustive, tasks):
        f, r, ids, cnt = part.ids
        level_ids[r] |= ids
        level_cnt[r] += cnt
        acc.merge(part)
    # per level: injective, exactly get_num_cells(r) ids, and equal to the ids the public API enumerates
    for r in range(0, R + 1):
        acc.strata[f'exhaustive_r{r:02d}'] = level_cnt[r]
        case = {'level': r}
        if len(level_ids[r]) != level_cnt[r] and not acc.violations:
            acc.violation(f'not-injective:level={r}', f'{level_cnt[r]} cells gave {len(level_ids[r])} distinct ids', case)
        try:
            nc = a5.get_num_cells(r)
            enum = a5.cell_to_children(ser.WORLD_CELL, r)
        except Exception as e:
            acc.violation(f'level-enum-raises:level={r}', f'enumerating level {r} raised {e!r}', case)
            continue
        acc.n['transitions'] += len(enum)
        if nc != rm.num_cells(r) or len(enum) != nc or len(set(enum)) != nc:
            acc.violation(f'level-count:level={r}', f'get_num_cells={nc}, enumerated {len(enum)} ({len(set(enum))} distinct), expected {rm.num_cells(r)}', case)
        elif set(enum) != level_ids[r] and not acc.violations:
            acc.violation(f'level-set:level={r}', f'ids enumerated by cell_to_children(0,{r}) differ from the encoded cells of that level', case)
        else:
            acc.n['validated'] += len(enum)
        # the other public enumerators of a level: uncompact of the world cell / of the twelve faces, and level-by-level children
        if not acc.violations:
            others = {}
            try:
                # multi-level jumps from every cell of levels 0, 1 and 2 (parents with a non-zero position included) ...
                for via in range(0, min(r, 3)):
                    base = sorted(level_ids[via])
                    others[f'cell_to_children(c, {r}) over level {via}'] = [x for c in base for x in a5.cell_to_children(c, r)]
                    if r <= 6:
                        others[f'uncompact(level {via}, {r})'] = a5.uncompact(list(base), r)
                if r > 6:
                    raise StopIteration
                if r >= 2:
                    # a cover of mixed levels: coarse cells, cells one level down and cells already at the target level, interleaved
                    mixed = []
                    for i, c in enumerate(sorted(level_ids[1])):
                        mixed.extend(a5.cell_to_children(c, r) if i % 3 == 1 else (a5.cell_to_children(c, 2) if i % 3 == 2 else [c]))
                    others[f'uncompact(mixed cover of levels 1/2/{r}, {r})'] = a5.uncompact(list(mixed), r)
                    others[f'uncompact(reversed mixed cover, {r})'] = a5.uncompact(list(reversed(mixed)), r)
                # ... and the remaining public enumerators of a level
                others['uncompact([world], r)'] = a5.uncompact([ser.WORLD_CELL], r)
                others['uncompact(get_res0_cells(), r)'] = a5.uncompact(list(a5.get_res0_cells()), r)
                step = [ser.WORLD_CELL]
                for rr in range(0, r + 1):
                    step = [ch for c in step for ch in a5.cell_to_children(c, rr)]
                others['children level by level'] = step
            except StopIteration:
                pass
            except Exception as e:
                acc.violation(f'level-enum2-raises:level={r}', f'enumerating level {r} ({len(others)} enumerators done) raised {e!r}', case)
                continue
            for name, ids in others.items():
                acc.n['transitions'] += len(ids)
                if len(ids) != nc or set(ids) != level_ids[r]:
                    acc.violation(f'level-enum2:{name}:level={r}', f'{name} enumerates {len(ids)} ids ({len(set(ids))} distinct), expected the {nc} ids of level {r}', case)
                else:
                    acc.n['validated'] += len(ids)
    # long jumps: one call spanning 1..8 (thorough 10) Hilbert levels from parents at several depths, through cell_to_children and uncompact
    if not acc.violations:
        parents = [(0,), (3, 2), (7, 4, 1), (11, 0, 3, 2, 1, 0), (5, 1) + (2, 1, 3, 0) * 5]
        for path in parents:
            c = rm.encode(path)
            pr = rm.res(path)
            for k in range(1, (8 if tier == 'quick' else 10) + 1):
                b = pr + k
                if b > 29 or rm.num_desc(pr, b) > 4 ** (8 if tier == 'quick' else 10):
                    break
                case = {'level': b, 'jump_from': list(path)}
                want = {rm.encode(q) for q in rm.descendants(path, b)}
                try:
                    got = {'cell_to_children': a5.cell_to_children(c, b), 'uncompact': a5.uncompact([c], b)}
                except Exception as e:
                    acc.violation(f'long-jump-raises:{"/".join(map(str, path))}:to={b}', f'enumerating the level-{b} descendants of {c:#x} in one call raised {e!r}', case)
                    break
                for name, ids in got.items():
                    acc.n['transitions'] += len(ids)
                    if len(ids) != len(want) or set(ids) != want:
                        acc.violation(f'long-jump:{name}:{"/".join(map(str, path))}:to={b}', f'{name}({c:#x}, {b}) gives {len(ids)} ids ({len(set(ids))} distinct), expected the {len(want)} level-{b} descendants', case)
                    else:
                        acc.n['validated'] += len(ids)
    # ids of different levels must be distinct too
    allids = set()
    total = 0
    for r in level_ids:
        allids |= level_ids[r]
        total += len(level_ids[r])
    if len(allids) != total:
        acc.violation('not-injective:across-levels', f'{total} ids over levels 0..{R} contain repeats', {'level': -1})
    # deep levels by digit pattern
    level = 'single' if tier == 'quick' else 'pairs'
    dtasks = [(f, r, level, segmap) for r in range(R + 1, 31) for f in range(12)]
    dtasks = common.rotate(dtasks, common.seed())
    common.pmap_merge(work_deep, dtasks, acc)
    rule = (f'every (face, segment, S) for resolutions 0..{R} (exhaustive), then resolutions {R + 1}..30 x 60 segments x digit '
            f'patterns G1[{level}] (see vf/seeds.py); a state is non-trivial when its id is distinct from all others of its task and '
            'encode, decode and re-encode all agreed with the reference codec; plus 4 out-of-range S per (face, segment, r>=2); every exhaustive level is also enumerated through the public enumerators (cell_to_children from the world cell and from every cell of levels 0, 1, 2; uncompact of the world cell, of the faces and of levels 0..2; children level by level) and must give the same id set')
    return common.finish(PID, LEVEL, tier, acc, t0, rule, [
        'reference codec vf/refmodel.py written from the layout comment of a5/core/serialization.py (shares no code)',
        'public segment -> id slot relabelling per face is read off resolution-1 ids (must be a bijection) and then required at every resolution',
        f'resolutions above {R}: only S with the digit patterns of G1 are enumerated (justified by the shift/mask structure of the codec)',
    ], extra={'exhaustive_to_resolution': R, 'deep_pattern_level': level}, exhaustive=True)


def replay(case):
    acc = common.Acc()
    if 'level' in case:
        return [('level-case', 'level-wide case: re-run the check')]
    segmap = discover_segment_map(acc)
    lib = _lib()
    if case.get('reject'):
        check_rejects(acc, lib, case['f'], case['seg'], case['r'])
    else:
        check_cell(acc, lib, segmap, case['f'], case['seg'], case['S'], case['r'])
    return [(k, w) for k, w, _ in acc.violations]
