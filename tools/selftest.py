#!/venv/bin/python
"""setup_cmd: nothing to build (pure Python); compile every module and self-test the reference model."""
import os, sys, py_compile, glob
HERE = os.path.dirname(os.path.dirname(os.path.abspath(__file__)))
sys.path.insert(0, HERE)
os.makedirs(os.path.join(HERE, 'evidence'), exist_ok=True)
os.makedirs(os.path.join(HERE, 'replays'), exist_ok=True)
for f in glob.glob(os.path.join(HERE, '**', '*.py'), recursive=True):
    if '/seeded/' in f:
        continue
    compile(open(f).read(), f, 'exec')
from vf import refmodel as rm
n = 0
for r in range(-1, 5):
    for p in rm.descendants((), r):
        assert rm.decode(rm.encode(p)) == p
        n += 1
    assert len(rm.descendants((), r)) == rm.num_cells(r)
assert rm.ref_compact(rm.descendants((), 3)) == {()}
print('selftest ok: reference codec round-trips', n, 'paths')
