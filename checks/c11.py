"""C11 - quantisation error and cell shape are bounded at every level (E1 + E2)."""
import math
from vf import common, refmodel as rm, seeds, sphere as sp, geo, points

PID = 'C11'
LEVEL = 'exploration'


def check_point(acc, a5, stratum, p, r, batch=None):
    acc.n['evaluations'] += 1
    acc.strata['point:' + (stratum.split('_cell_')[0])] += 1
    case = {'kind': 'point', 'point': [p[0], p[1]], 'r': r}
    k = f'c11:point:{p[0]!r},{p[1]!r}@{r}'
    try:
        c = a5.lonlat_to_cell(points.as_argument(p, r % 2 == 0), r)
        centre = a5.cell_to_lonlat(c)
    except Exception as e:
        acc.violation(k + ':raises', f'lonlat_to_cell / cell_to_lonlat raised {type(e).__name__}: {e} for {p!r} at resolution {r}', case)
        return
    if batch is not None:
        batch.append((p, r, c))
    d = sp.angle(sp.vec((sp.wrap_lon(p[0]), p[1])), sp.vec(centre)) / sp.width(r)
    acc.maximum(f'quantisation_in_widths_r{r:02d}', round(d, 4), [p[0], p[1]])
    if not (d <= 1.0):
        acc.violation(k + ':far', f'centre of the cell of {p!r} at resolution {r} ({c:#x}) is {d:.3f} cell widths away (limit 1.0)', case)
        return
    acc.n['nontrivial'] += 1
    acc.outcome(c)


def check_shape(acc, a5, c, r, label):
    acc.n['evaluations'] += 1
    acc.strata[f'shape:r{r:02d}'] += 1
    case = {'kind': 'shape', 'cell': hex(c), 'r': r}
    k = f'c11:shape:{label}'
    try:
        corners = geo.ring(c, 1, cache=False)
        centre = sp.vec(a5.cell_to_lonlat(c))
    except Exception as e:
        acc.violation(k + ':raises', f'raised {type(e).__name__}: {e}', case)
        return
    w = sp.width(r)
    if len(corners) != 5:
        acc.violation(k + ':count', f'{len(corners)} corners', case)
        return
    for i in range(5):
        for j in range(i + 1, 5):
            if sp.small_angle(corners[i], corners[j]) <= 1e-6 * w:
                acc.violation(k + ':coincident', f'corners {i} and {j} of {c:#x} coincide', case)
                return
    ds = [sp.angle(v, centre) / w for v in corners]
    acc.maximum('max_corner_distance_widths', round(max(ds), 4), hex(c))
    acc.maximum('neg_min_corner_distance_widths', round(-min(ds), 4), hex(c))
    if min(ds) < 0.35 or max(ds) > 1.0:
        acc.violation(k + ':shape', f'corner distances of {c:#x} from its centre are {min(ds):.3f}..{max(ds):.3f} cell widths (allowed 0.35..1.0)', case)
        return
    acc.n['nontrivial'] += 1


def work_points(task):
    a5 = geo.api()
    acc = common.Acc()
    try:
        pts = points.expand(task)
    except Exception as e:
        acc.violation(f'c11:alphabet:{task[0]}:{str(task[1])[:60]}', f'building the point alphabet raised {type(e).__name__}: {e}', {'kind': 'alphabet'})
        return acc
    batch = []
    for stratum, p, r, origin in pts:
        check_point(acc, a5, stratum, p, r, batch)        # 'periodic': the same points with the longitude written +-360 / +-720 degrees away
    # two-phase (batch) use: the centres asked again in a different, face-interleaved order must still be within one width
    order = sorted(batch, key=lambda t: (t[1], (rm.decode(t[2]) or ())[1:], t[2]))
    for p, r, c in order[::2]:
        acc.n['evaluations'] += 1
        acc.strata['point:batch_second_pass'] += 1
        try:
            centre = a5.cell_to_lonlat(c)
        except Exception as e:
            acc.violation(f'c11:batch:{c:#x}:raises', f'cell_to_lonlat({c:#x}) raised {type(e).__name__}: {e}', {'kind': 'point', 'point': [p[0], p[1]], 'r': r})
            continue
        d = sp.angle(sp.vec((sp.wrap_lon(p[0]), p[1])), sp.vec(centre)) / sp.width(r)
        if not (d <= 1.0):
            acc.violation(f'c11:batch:{p[0]!r},{p[1]!r}@{r}', f'asked again in a batch, the centre of {c:#x} (cell of {p!r} at resolution {r}) is {d:.3f} cell widths from the point (limit 1.0)',
                          {'kind': 'point', 'point': [p[0], p[1]], 'r': r})
            continue
        acc.n['batch_second_pass_ok'] += 1
    return acc


def work_shapes(task):
    a5 = geo.api()
    acc = common.Acc()
    for path in task:
        check_shape(acc, a5, rm.encode(path), rm.res(path), '/'.join(map(str, path)))
    return acc


def work_site_shapes(task):
    a5 = geo.api()
    acc = common.Acc()
    kind, lon, lat = task
    seen = set()
    for r in range(2, 30):
        for p in geo.neighbourhood(lon, lat, 3, [0.3 * sp.width(r), 1.1 * sp.width(r)]):
            try:
                c = a5.lonlat_to_cell(p, r)
            except Exception:
                continue
            if c not in seen and rm.decode(c) is not None:
                seen.add(c)
                check_shape(acc, a5, c, r, f'{c:#x}')
    return acc


def run(tier, t0):
    acc = common.Acc()
    tasks = [(work_points, t) for t in points.tasks(tier, common.seed()) if t[0] != 'periodic']
    R = 5 if tier == 'quick' else 6
    for r in range(2, R + 1):
        for ch in common.chunks(rm.interleaved(rm.descendants((), r)), 500):
            tasks.append((work_shapes, ch))
    deep = []
    level = 'basic' if tier == 'quick' else 'single'
    for r in range(R + 1, 30):
        for f in range(12):
            for n in range(5):
                if tier == 'quick' and (f + n + r + common.seed()) % 3:
                    continue
                for d in seeds.g1_patterns(r - 1, level):
                    deep.append((f, n) + d)
    for ch in common.chunks(rm.interleaved(deep), 500):
        tasks.append((work_shapes, ch))
    for kind, lon, lat in geo.special_sites(tier, common.seed()):
        tasks.append((work_site_shapes, (kind, lon, lat)))
    tasks = common.rotate(tasks, common.seed())
    for part in common.pmap(_dispatch, tasks, chunksize=2):
        acc.merge(part)
    acc.sample({'point': [179.99999, 89.999999], 'r': 29, 'check': 'distance to cell_to_lonlat(lonlat_to_cell(p, r)) <= 1.0 * sqrt(cell area)'})
    acc.sample({'cell': hex(rm.encode((0, 0) + (3,) * 27)), 'check': '5 corners distinct, 0.35..1.0 widths from the centre'})
    rule = (f'quantisation: the whole C01 point alphabet; shape: every cell of resolutions 2..{R}, G1[{level}] digit-pattern cells and cells around 88 special sites at resolutions up to 29; '
            'non-trivial = cases that satisfied the bound')
    return common.finish(PID, LEVEL, tier, acc, t0, rule, [
        'distances are great-circle distances on the authalic sphere between closed-form unit vectors; a cell width is sqrt(4*pi/get_num_cells(r)) rad',
        'bounds 1.0 and 0.35..1.0 are the statement\'s own; measured extremes are reported under coverage.maxima',
    ], exhaustive=False)


def _dispatch(t):
    return t[0](t[1])


def replay(case):
    acc = common.Acc()
    a5 = geo.api()
    if case.get('kind') == 'point':
        check_point(acc, a5, 'replay', tuple(case['point']), case['r'])
    elif case.get('kind') == 'shape':
        check_shape(acc, a5, int(case['cell'], 16), case['r'], 'replay')
    else:
        return [('c11:alphabet', 're-run the check')]
    return [(k, w) for k, w, _ in acc.violations]
