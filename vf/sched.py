"""E4 - schedule explorer: every one-preemption schedule "A is preempted at point k, B runs to completion, A resumes".

A runs under a sys.monitoring tool.  At every LINE (or INSTRUCTION) event raised inside the package under test the
process forks; the child switches monitoring off, runs B to completion at exactly that point of A, lets A finish
and reports both values through a pipe; the parent carries on to the next point.  fork() snapshots the complete
interpreter state, so no knowledge of the library's globals is needed and prefixes are never re-executed.
"""
import os
import sys
import time
import pickle
import select
import signal
import threading

mon = sys.monitoring
TOOL = 4


def canon(v):
    """bit-exact, order-preserving canonical form of a returned value"""
    if isinstance(v, float):
        return ('f', v.hex())
    if isinstance(v, bool) or v is None or isinstance(v, (int, str)):
        return v
    if isinstance(v, (list, tuple)):
        return (type(v).__name__,) + tuple(canon(x) for x in v)
    if isinstance(v, dict):
        return ('dict',) + tuple((canon(k), canon(x)) for k, x in v.items())
    return ('repr', repr(v))


def call_value(fn):
    try:
        return ('ok', canon(fn()))
    except BaseException as e:  # noqa
        return ('exc', f'{type(e).__name__}: {e}')


class Explorer:
    def __init__(self, pkg_prefix, granularity='line', timeout=10.0, outstanding=3):
        self.prefix = pkg_prefix
        self.event = mon.events.LINE if granularity == 'line' else mon.events.INSTRUCTION
        self.timeout = timeout
        self.outstanding = outstanding
        self.in_child = False
        self.results = []          # (k, site, a_value, b_value) or (k, site, 'blocked'/'crash', None)
        self.pending = []
        self.k = 0
        self.only = None
        self.after = None          # optional probe run in the child after A has finished (later single-threaded calls)
        self.counting = None
        self.abort_exc = None      # fault injection: instead of running B, raise this exception inside A at the preemption point
        self.occ_cap = None        # (first n, last m) dynamic occurrences of every site are explored; None = all
        self.occ_seen = {}
        self.occ_total = {}
        self.skipped = 0
        self.b_in_thread = True    # B runs in a real second thread of the child (own thread-local storage, own thread identity) while A stays suspended

    def _run_b(self):
        if not self.b_in_thread:
            return call_value(self.call_b)
        box = []
        t = threading.Thread(target=lambda: box.append(call_value(self.call_b)))
        t.start()
        t.join()
        return box[0] if box else ('exc', 'the second thread ended without a value')

    def count_sites(self, call_a):
        """dynamic occurrence count of every line site of A, measured in a forked child so that this process keeps its (cold) state"""
        r, w = os.pipe()
        pid = os.fork()
        if pid == 0:
            try:
                os.close(r)
                self.counting = {}
                mon.use_tool_id(TOOL, 'verif-sched')
                mon.register_callback(TOOL, self.event, self._cb)
                mon.set_events(TOOL, self.event)
                call_value(call_a)
                mon.set_events(TOOL, 0)
                data = pickle.dumps(self.counting)
                view = memoryview(data)
                while view:
                    n = os.write(w, view[:1 << 16])
                    view = view[n:]
            finally:
                os._exit(0)
        os.close(w)
        buf = []
        while True:
            ch = os.read(r, 1 << 16)
            if not ch:
                break
            buf.append(ch)
        os.close(r)
        os.waitpid(pid, 0)
        return pickle.loads(b''.join(buf))

    # ---- monitoring callback -------------------------------------------------------------------------------
    def _cb(self, code, where):
        if not code.co_filename.startswith(self.prefix):
            return mon.DISABLE
        if self.in_child:
            return None
        self.k += 1
        k = self.k
        if self.counting is not None:
            self.counting[(code.co_filename, code.co_name, where)] = self.counting.get((code.co_filename, code.co_name, where), 0) + 1
            return None
        if self.occ_cap is not None:
            key = (code.co_filename, code.co_name, where)
            n = self.occ_seen[key] = self.occ_seen.get(key, 0) + 1
            tot = self.occ_total.get(key, n)
            if not (n <= self.occ_cap[0] or n > tot - self.occ_cap[1]):
                self.skipped += 1
                return None
        if self.only is not None:
            if isinstance(self.only, tuple):
                if k % self.only[0] != self.only[1]:      # this process explores one residue class of the preemption points
                    return None
            elif k not in self.only:
                return None
        site = (code.co_filename[len(self.prefix):], code.co_name, where)
        r, w = os.pipe()
        pid = os.fork()
        if pid == 0:
            os.close(r)
            self.in_child = True
            mon.set_events(TOOL, 0)
            self.child_w = w
            if self.abort_exc is not None:
                self.child_b = ('aborted', site)
                raise self.abort_exc(f'injected at {site[0]}:{site[2]}')      # propagates into A at exactly this point
            self.child_b = self._run_b()
            return None
        os.close(w)
        self.pending.append((pid, r, k, site, time.time()))
        while len(self.pending) >= self.outstanding:
            self._reap_one()
        return None

    def _reap_one(self):
        pid, r, k, site, t0 = self.pending.pop(0)
        data = b''
        status = 'ok'
        while True:
            left = self.timeout - (time.time() - t0)
            if left <= 0:
                status = 'blocked'
                break
            rd, _, _ = select.select([r], [], [], left)
            if not rd:
                status = 'blocked'
                break
            chunk = os.read(r, 1 << 16)
            if not chunk:
                break
            data += chunk
        os.close(r)
        if status == 'blocked':
            try:
                os.kill(pid, signal.SIGKILL)
            except ProcessLookupError:
                pass
        os.waitpid(pid, 0)
        if status == 'blocked':
            self.results.append((k, site, 'blocked', None))
            return
        try:
            va, vb = pickle.loads(data)
        except Exception:
            self.results.append((k, site, 'crash', None))
            return
        self.results.append((k, site, va, vb))

    # ---- driver ------------------------------------------------------------------------------------------
    def explore(self, call_a, call_b, only=None):
        """returns list of (k, site, A's value, B's value); runs in the calling process (which keeps A's effects)"""
        self.call_b = call_b
        self.results = []
        self.pending = []
        self.k = 0
        self.only = only if isinstance(only, tuple) or only is None else set(only)
        mon.use_tool_id(TOOL, 'verif-sched')
        mon.register_callback(TOOL, self.event, self._cb)
        mon.set_events(TOOL, self.event)
        try:
            va = call_value(call_a)
        finally:
            if not self.in_child:
                mon.set_events(TOOL, 0)
                mon.register_callback(TOOL, self.event, None)
                mon.free_tool_id(TOOL)
        if self.in_child:
            try:
                vb = self.child_b
                if self.after is not None:
                    vb = ('with-probe', vb, call_value(self.after))
                data = pickle.dumps((va, vb))
                view = memoryview(data)
                while view:
                    n = os.write(self.child_w, view[:1 << 16])
                    view = view[n:]
            finally:
                os._exit(0)
        while self.pending:
            self._reap_one()
        self.solo_a = va
        return self.results
