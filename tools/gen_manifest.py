#!/venv/bin/python
"""Regenerates /verif/MANIFEST.json from the table below and validates it against the schema (if jsonschema is there)."""
import json
import os
import sys

HERE = os.path.dirname(os.path.dirname(os.path.abspath(__file__)))

# pid -> (level category, technique, level text, level note, design ref)
CHECKS = {
    'C05': ('model_checking',
            'explicit-state enumeration of the cell tree on the real codec, reference-codec conformance on every edge',
            'Every (face, segment, S) of resolutions 0..7 (quick) / 0..8 (thorough) and digit-pattern seeds for every deeper '
            'resolution up to 30 are encoded and decoded by the implementation and by an independent reference codec; range, '
            'injectivity, level counts and rejection of out-of-range S are checked in every state. Exhaustive below the bound, '
            'pattern-directed above it.',
            'Trusts vf/refmodel.py (60 lines, written from the layout comment). Above the exhaustive bound only S values with the '
            'G1 digit patterns are visited.',
            'DESIGN.md 3/C05'),
}

PENDING_REASON = 'check not built yet in this session (planned in DESIGN.md section 3; claimed as soon as its check is committed)'


def main():
    props = [json.loads(l)['id'] for l in open(os.path.join(HERE, 'properties.jsonl')) if l.strip()]
    checks = []
    for pid in props:
        if pid not in CHECKS:
            continue
        cat, tech, text, note, ref = CHECKS[pid]
        checks.append({
            'property_id': pid,
            'quick_cmd': f'/venv/bin/python run_check.py {pid} --tier quick',
            'thorough_cmd': f'/venv/bin/python run_check.py {pid} --tier thorough',
            'evidence_file': f'/verif/evidence/{pid}.json',
            'replay_cmd_template': f'/venv/bin/python run_check.py {pid} --replay {{path}}',
            'engine': 'vf',
            'level_claimed': {'category': cat, 'text': text, 'design_ref': ref},
            'level_note': note,
            'technique': tech,
        })
    man = {
        'version': 1,
        'setup_cmd': '/venv/bin/python tools/selftest.py',
        'hooks': {
            'guard': 'A5_VERIF',
            'enable': 'no source hooks are needed: the explorers drive the unmodified package (sys.monitoring + fork for schedules, fork for histories); checks import a5 from /repo\'s working tree',
            'baseline_off_cmd': 'cd /repo && /venv/bin/python -m pytest -ra -q -p no:cacheprovider --timeout=900 --continue-on-collection-errors',
            'source_commits': [],
            'add_only': True,
        },
        'engines': [{
            'name': 'vf',
            'path': '/verif/vf',
            'serves_properties': [c['property_id'] for c in checks],
            'kind_free_text': 'hand-written bounded exhaustive explorers in pure Python driving the real a5 functions (cell-tree BFS, antichain-lattice BFS, '
                              'one-preemption schedule enumeration via sys.monitoring+fork, call-history BFS with state hashing via fork) with independent reference models as oracles',
        }],
        'checks': checks,
        'not_applicable': [{'property_id': p, 'reason': NA.get(p, PENDING_REASON)} for p in props if p not in CHECKS],
        'notes': 'All checks: /venv/bin/python run_check.py <ID> --tier quick|thorough [--replay file]; evidence in /verif/evidence; '
                 'known findings in /verif/known_findings.json; seeded breaking changes in /verif/seeded.',
    }
    path = os.path.join(HERE, 'MANIFEST.json')
    with open(path, 'w') as fh:
        json.dump(man, fh, indent=1)
        fh.write('\n')
    try:
        import jsonschema
        schema = json.load(open('/root/.vp/MANIFEST.schema.json'))
        jsonschema.validate(man, schema)
        print('MANIFEST.json valid;', len(checks), 'checks,', len(man['not_applicable']), 'not claimed')
    except ImportError:
        print('MANIFEST.json written (jsonschema not available for validation);', len(checks), 'checks')


NA = {}

if __name__ == '__main__':
    main()
