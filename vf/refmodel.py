"""Reference model of the A5 cell hierarchy, written from the documented id layout and sharing no code with a5.

A cell is a tuple path:
    ()                      the world cell (resolution -1)
    (f,)                    face f in 0..11                       (resolution 0)
    (f, n)                  n-th segment of face f, n in 0..4     (resolution 1; n counts from the face's first
                                                                  quintant, i.e. it is the id-level segment number)
    (f, n, d1, .., dk)      k quaternary digits, most significant first   (resolution k + 1)

Id layout (64 bits): | 6 bits: f (res 0) or 5 f + n | 2 bits per digit | one marker bit | zeros |
The marker sits directly below the last digit; for resolution 0 it is bit 57, for resolution 1 bit 56.
"""

MAX_ENCODABLE = 29          # resolution 30 has 29 digits = 58 bits: no room for a marker
TOP = 58


def res(path):
    return len(path) - 1


def parent(path, to_res=None):
    if to_res is None:
        to_res = res(path) - 1
    assert -1 <= to_res <= res(path)
    return path[:to_res + 1]


def n_children(path):
    if len(path) == 0:
        return 12
    if len(path) == 1:
        return 5
    return 4


def children(path):
    return [path + (i,) for i in range(n_children(path))]


def descendants(path, to_res):
    assert to_res >= res(path)
    out = [path]
    while res(out[0]) < to_res:
        nxt = []
        for p in out:
            nxt.extend(children(p))
        out = nxt
    return out


def num_cells(r):
    if r < 0:
        return 1 if r == -1 else 0
    if r == 0:
        return 12
    return 60 * 4 ** (r - 1)


def num_desc(path_res, to_res):
    """number of descendants of a cell of resolution path_res at resolution to_res >= path_res"""
    n = 1
    for r in range(path_res, to_res):
        n *= 12 if r == -1 else (5 if r == 0 else 4)
    return n


def encode(path):
    """tuple path -> 64 bit id (raises for resolution 30: not representable)"""
    r = res(path)
    if r == -1:
        return 0
    f = path[0]
    if r == 0:
        return (f << TOP) | (1 << (TOP - 1))
    top = 5 * f + path[1]
    if r == 1:
        return (top << TOP) | (1 << (TOP - 2))
    k = r - 1
    s = 0
    for d in path[2:]:
        s = s * 4 + d
    marker = TOP - 2 * k - 1
    if marker < 0:
        raise OverflowError('resolution %d does not fit' % r)
    return (top << TOP) | (s << (TOP - 2 * k)) | (1 << marker)


def decode(idv):
    """64 bit id -> tuple path, or None if idv is not a valid id"""
    if idv == 0:
        return ()
    if not (0 < idv < (1 << 64)):
        return None
    low = (idv & -idv).bit_length() - 1          # position of the lowest set bit = marker
    top = idv >> TOP
    if low == TOP - 1:
        if top > 11:
            return None
        return (top,)
    if low == TOP - 2:
        if top > 59:
            return None
        return (top // 5, top % 5)
    if low > TOP - 2 or low % 2 == 0:
        return None
    k = (TOP - 1 - low) // 2
    if top > 59:
        return None
    s = (idv & ((1 << TOP) - 1)) >> (TOP - 2 * k)
    digits = []
    for _ in range(k):
        digits.append(s & 3)
        s >>= 2
    return (top // 5, top % 5) + tuple(reversed(digits))


def s_of(path):
    s = 0
    for d in path[2:]:
        s = s * 4 + d
    return s


def path_from(f, n, s, r):
    if r == -1:
        return ()
    if r == 0:
        return (f,)
    if r == 1:
        return (f, n)
    k = r - 1
    digits = []
    for _ in range(k):
        digits.append(s & 3)
        s >>= 2
    return (f, n) + tuple(reversed(digits))


# ----- reference compaction on sets of paths -----

def is_antichain(paths):
    ps = set(paths)
    for p in ps:
        for k in range(len(p)):
            if p[:k] in ps:
                return False
    return True


def ref_compact(paths):
    """canonical minimal set covering the same region as `paths` (any multiset of cells, overlaps allowed)"""
    cur = set(paths)
    # drop cells covered by an ancestor that is present
    cur = {p for p in cur if not any(p[:k] in cur for k in range(len(p)))}
    changed = True
    while changed:
        changed = False
        by_parent = {}
        for p in cur:
            if len(p) > 0:
                by_parent.setdefault(p[:-1], set()).add(p)
        for par, kids in by_parent.items():
            if len(kids) == n_children(par):
                cur -= kids
                cur.add(par)
                changed = True
    return cur


def ref_cover(paths, to_res):
    """set of resolution-to_res cells covered by `paths`"""
    out = set()
    for p in set(paths):
        out.update(descendants(p, to_res))
    return out


def has_complete_group(paths):
    ps = set(paths)
    by_parent = {}
    for p in ps:
        if len(p) > 0:
            by_parent.setdefault(p[:-1], 0)
            by_parent[p[:-1]] += 1
    for par, c in by_parent.items():
        if c == n_children(par):
            return par
    return None


def interleaved(paths):
    """same cells, ordered so that consecutive cells have the same (segment slot, digits) on DIFFERENT faces: a cache keyed on
    anything less than the full identity of a cell (e.g. one that forgets the face) is hit with the wrong owner"""
    return sorted(paths, key=lambda p: (len(p), p[1:], p[:1]))
