"""Glue between the API under test and the spherical oracle: rings as unit vectors, the refuting containment oracle,
input alphabets derived from the explored cells and from the dodecahedron frame (E2)."""
import math
from . import sphere as sp
from . import refmodel as rm

_RING_CACHE = {}


def api():
    import a5
    return a5


def ring_lonlat(cell, K):
    return api().cell_to_boundary(cell, {'segments': K, 'closed_ring': False})


def ring(cell, K, cache=True):
    """open ring of `cell` with K segments per edge as unit vectors, in the order the library returns it"""
    key = (cell, K)
    v = _RING_CACHE.get(key) if cache else None
    if v is None:
        v = [sp.vec(p) for p in ring_lonlat(cell, K)]
        if cache:
            if len(_RING_CACHE) > 3000:
                _RING_CACHE.clear()
            _RING_CACHE[key] = v
    return v


def tol(r):
    return 2e-11 + 1e-9 * sp.width(r)


def sag_bound(r, K):
    """cheap upper estimate of the K-polyline's distance from the true edge (used only to ACCEPT points, never to refute)"""
    return 0.08 * sp.width(r) / (K * K) + 1e-13


def align_fine(coarse, fine, eps):
    """return `fine` rotated/reversed such that fine[2i] ~ coarse[i]; None if no alignment exists"""
    n = len(coarse)
    if len(fine) != 2 * n:
        return None
    j = min(range(2 * n), key=lambda t: sp.norm(sp.sub(fine[t], coarse[0])))
    for step in (1, -1):
        cand = [fine[(j + step * t) % (2 * n)] for t in range(2 * n)]
        if all(sp.norm(sp.sub(cand[2 * i], coarse[i])) <= eps for i in range(n)):
            return cand
    return None


def measured_sagitta(cell, r, K):
    """distance of the K-polyline from the 2K-polyline (the polyline's own error), or None if the rings do not align"""
    coarse = ring(cell, K)
    fine = ring(cell, 2 * K)
    al = align_fine(coarse, fine, 1e-9 * sp.width(r) + 1e-13)
    if al is None:
        return None
    return sp.sagitta(coarse, al)


def k0(r):
    return 1 if r >= 12 else (4 if r >= 6 else 16)


def contains(cell, r, p, kmax=256):
    """refuting containment oracle.  returns (verdict, info) with verdict in
       'inside'   : winding != 0 and farther from the polyline than its error
       'outside'  : winding == 0 and farther from the polyline than 2*measured sagitta + tol(r)   (a violation)
       'tie'      : too close to the boundary to decide at K = kmax (accepted, counted)
       'unaligned': the K and 2K rings of the cell do not correspond (oracle cannot decide; C12's business)"""
    K = k0(r)
    if r <= 1:
        K = 16
    info = {}
    refuted = 0
    while True:
        rg = ring(cell, K)
        w, d = sp.locate(p, rg)
        info = {'K': K, 'winding': w, 'dist': d}
        if w is None:
            return 'outside', info
        if w != 0 and d > 2 * sag_bound(r, K):
            return 'inside', info
        if w == 0:
            sag = measured_sagitta(cell, r, K)
            info['sagitta'] = sag
            if sag is None:
                return 'unaligned', info
            if d > 2 * sag + tol(r):
                # an edge that crosses a seam of the projection has a kink, and the mid-point sagitta can under-estimate the polyline's
                # error there: a refutation only stands when it is confirmed on the 4x finer ring as well
                refuted += 1
                if refuted >= 2 or K >= kmax:
                    return 'outside', info
            else:
                refuted = 0
        else:
            refuted = 0
        if K >= kmax:
            return 'tie', info
        K *= 4


# ---------------------------------------------------------------------------------------------------------------
# alphabets
# ---------------------------------------------------------------------------------------------------------------

_FRAME = None


def frame_points():
    """the 62 frame points (12 face centres, 20 vertices, 30 edge midpoints) as (kind, lon, lat); taken from the library's
    own frame - they only steer WHERE inputs are placed, they are not part of any oracle"""
    global _FRAME
    if _FRAME is None:
        from a5.projections.dodecahedron import crs
        from a5.core.coordinate_transforms import to_lonlat, to_spherical
        out = []
        for i, v in enumerate(crs.vertices):
            lon, lat = to_lonlat(to_spherical(tuple(v)))
            kind = 'face_centre' if i < 12 else ('face_vertex' if i < 32 else 'edge_midpoint')
            out.append((kind, sp.wrap_lon(lon), max(-90.0, min(90.0, lat))))
        _FRAME = out
    return _FRAME


SCALES = [0.0] + [10.0 ** -k for k in range(12, 0, -1)]      # radians: 0, 1e-12 .. 1e-1


def neighbourhood(lon, lat, ndir=12, scales=SCALES):
    """points at log-scaled great-circle distances around (lon, lat) in ndir directions, as (lon, lat)"""
    c = sp.vec((lon, lat))
    e1, e2 = sp.basis(c)
    out = [(lon, lat)]
    for s in scales:
        if s == 0.0:
            continue
        for k in range(ndir):
            a = 2 * math.pi * (k + 0.25) / ndir
            d = sp.add(sp.scale(e1, math.cos(a)), sp.scale(e2, math.sin(a)))
            v = sp.unit(sp.add(sp.scale(c, math.cos(s)), sp.scale(d, math.sin(s))))
            out.append(sp.lonlat(v))
    return out


def face_edge_points():
    """2 points on each of the 30 dodecahedron edges, half way between the edge midpoint and each end vertex"""
    fr = frame_points()
    verts = [sp.vec((lo, la)) for k, lo, la in fr if k == 'face_vertex']
    out = []
    for k, lo, la in fr:
        if k != 'edge_midpoint':
            continue
        m = sp.vec((lo, la))
        near = sorted(verts, key=lambda v: sp.angle(v, m))[:2]
        for v in near:
            q = sp.lonlat(sp.lerp_unit(m, v, 0.5))
            out.append(('face_edge', q[0], q[1]))
    return out


def special_sites(tier='thorough', seed=0):
    """(kind, lon, lat) of the places around which inputs are concentrated: frame points, poles, antimeridian, face edges
    (quick tier: a rotating third of the 60 face-edge points)"""
    sites = list(frame_points())
    fe = face_edge_points()
    sites += fe if tier == 'thorough' else fe[seed % 3::3]
    sites.append(('pole', 0.0, 90.0))
    sites.append(('pole', 0.0, -90.0))
    for i in range(24):
        lat = -86.25 + i * 7.5
        sites.append(('antimeridian', 180.0 if i % 2 else -180.0, lat))
    # the meridian(s) at which the library's own spherical -> lon/lat conversion wraps (its raw longitude range is not [-180, 180]):
    # a seam of the code that is not a seam of the sphere, discovered by scanning to_lonlat for jumps
    for wl in lon_wrap_meridians():
        lats = [-78.0 + 12.0 * i for i in range(14)]
        for lat in (lats if tier == 'thorough' else lats[seed % 2::2]):
            sites.append(('lon_wrap', wl, lat))
    return sites


_WRAPS = None


def lon_wrap_meridians():
    """longitudes (in [-180, 180], +-180 excluded) at which a5's to_lonlat jumps as the azimuth goes once round; steering only"""
    global _WRAPS
    if _WRAPS is None:
        out = []
        try:
            from a5.core.coordinate_transforms import to_lonlat
            n = 7200
            prev_t, prev = None, None
            for i in range(n + 1):
                t = -math.pi + 2 * math.pi * i / n
                lon = to_lonlat((t, 1.0))[0]
                if prev is not None and abs(lon - prev) > 180.0:
                    a, b = prev_t, t
                    for _ in range(60):
                        m = 0.5 * (a + b)
                        if abs(to_lonlat((m, 1.0))[0] - prev) > 180.0:
                            b = m
                        else:
                            a = m
                    w = sp.wrap_lon(to_lonlat((a, 1.0))[0])
                    if abs(abs(w) - 180.0) > 1e-6 and all(abs(w - x) > 1e-6 for x in out):
                        out.append(w)
                prev_t, prev = t, lon
            # the scan interval itself may end on the jump (azimuth +-pi)
            lo, hi = to_lonlat((-math.pi, 1.0))[0], to_lonlat((math.pi, 1.0))[0]
            if abs(hi - lo) > 180.0:
                w = sp.wrap_lon(hi)
                if abs(abs(w) - 180.0) > 1e-6 and all(abs(w - x) > 1e-6 for x in out):
                    out.append(w)
        except Exception:
            out = []
        _WRAPS = out
    return _WRAPS


def inside_points(cell, r, insets):
    """E2 points generated from a cell: centre, and for each corner / true edge midpoint the point pulled towards the
    centre by inset*width.  returns list of (stratum, unit vector)"""
    rg2 = ring(cell, 2)
    n = len(rg2)
    m = sp.centroid(rg2)
    w = sp.width(r)
    out = [('centre', m)]
    # discover which samples are corners: those that also occur in the segments=1 ring
    rg1 = ring(cell, 1)
    corner_idx = {i for d, i in sp.align(rg1, rg2)}
    for i, v in enumerate(rg2):
        kind = 'inside_corner' if i in corner_idx else 'inside_edge'
        dist = sp.angle(v, m)
        for eps in insets:
            t = min(0.9, eps * w / dist) if dist > 0 else 0.0
            out.append((kind, sp.lerp_unit(v, m, t)))
    return out
