"""C15 - geodetic <-> authalic latitude conversion is accurate and invertible (dense 1-D grid + log ladders)."""
import math
from vf import common, sphere as sp

PID = 'C15'
LEVEL = 'exploration'
HALF_PI = math.pi / 2
LONS = (12.5, -180.0, 180.0, -200.0, 300.0, 0.0, -270.0, 360.0, -93.0, 87.0, 267.5, -539.0, 540.5)


def _lib():
    from a5.projections.authalic import AuthalicProjection
    from a5.core import coordinate_transforms as ct
    return AuthalicProjection(), ct


def closed_form(phi):
    return sp.authalic_lat(phi)


def check_lat(acc, au, ct, phi, stratum):
    """phi in radians"""
    acc.n['evaluations'] += 1
    acc.strata[stratum] += 1
    case = {'phi': phi}
    k = f'c15:{phi!r}'
    try:
        b = au.forward(phi)
        bm = au.forward(-phi)
        back = au.inverse(b)
    except Exception as e:
        acc.violation(k + ':raises', f'raised {type(e).__name__}: {e}', case)
        return None
    want = closed_form(phi)
    err = abs(b - want)
    acc.maximum('forward_vs_closed_form_rad', err, phi)
    if not (err <= 1e-10):
        acc.violation(k + ':accuracy', f'forward({phi!r}) = {b!r}, closed form {want!r} (error {err:.3g} rad, limit 1e-10)', case)
        return None
    if bm != -b:
        acc.violation(k + ':odd', f'forward(-phi) = {bm!r} is not -forward(phi) = {-b!r}', case)
        return None
    rt = abs(back - phi)
    acc.maximum('inverse_of_forward_rad', rt, phi)
    if not (rt <= 1e-12):
        acc.violation(k + ':inverse', f'inverse(forward({phi!r})) = {back!r} (error {rt:.3g} rad, limit 1e-12)', case)
        return None
    # the same through the lon/lat API (degrees)
    lat = math.degrees(phi)
    # the latitude conversion must not depend on how (or where) the longitude is written: one longitude of the menu per grid point, all of them
    # on the ladders and in replays
    lons = LONS if stratum != 'grid' else (LONS[acc.n['evaluations'] % len(LONS)],)
    for lon in lons if -90.0 <= lat <= 90.0 else ():
        try:
            th, colat = ct.from_lonlat((lon, lat))
            lon2, lat2 = ct.to_lonlat((th, colat))
        except Exception as e:
            acc.violation(k + ':lonlat-raises', f'from_lonlat/to_lonlat raised {type(e).__name__}: {e} at longitude {lon!r}', case)
            return None
        e1 = abs((HALF_PI - colat) - want)
        e2 = abs(math.radians(lat2) - phi)
        acc.maximum('from_lonlat_vs_closed_form_rad', e1, phi)
        if not (e1 <= 1e-10) or not (e2 <= 1e-12 + 4e-16 * 90):
            acc.violation(k + ':lonlat', f'from_lonlat latitude error {e1:.3g} rad / to_lonlat round trip error {e2:.3g} rad at latitude {lat!r}, longitude {lon!r}', case)
            return None
        if abs(((lon2 - lon + 180) % 360) - 180) > 1e-9:
            acc.violation(k + ':lon', f'longitude {lon!r} came back as {lon2!r}', case)
            return None
    acc.n['nontrivial'] += 1
    return b


def work(task):
    au, ct = _lib()
    acc = common.Acc()
    kind = task[0]
    if kind == 'grid':
        _, n, lo, hi = task
        prev = None
        prev_phi = None
        for i in range(lo, hi + 1):
            phi = -HALF_PI + math.pi * i / n if i < n else HALF_PI
            b = check_lat(acc, au, ct, phi, 'grid')
            if b is None:
                prev = None
                continue
            if prev is not None and not (b > prev):
                acc.violation(f'c15:monotone:{phi!r}', f'forward is not strictly increasing between {prev_phi!r} and {phi!r} ({prev!r} -> {b!r})', {'phi': phi, 'prev': prev_phi})
            prev, prev_phi = b, phi
    else:
        # log ladders towards 0 and +-90 degrees from both sides
        seq = []
        for kk in range(0, 129):
            d = 10.0 ** (-kk / 8.0)
            bases = [(0.0, 1), (0.0, -1), (HALF_PI, -1), (-HALF_PI, 1)]
            # the series is evaluated through cos(2 phi): its zeros (+-45 deg) and the other multiples of 15 deg are approached too
            for m in range(-5, 6):
                if m != 0:
                    bases += [(m * math.pi / 12, 1), (m * math.pi / 12, -1)]
            for base, sgn in bases:
                phi = base + sgn * d
                if -HALF_PI <= phi <= HALF_PI:
                    seq.append(phi)
        seq += [0.0, HALF_PI, -HALF_PI] + [m * math.pi / 12 for m in range(-5, 6)]
        seq = sorted(set(seq))
        prev = None
        prev_phi = None
        for phi in seq:
            b = check_lat(acc, au, ct, phi, 'ladder')
            if b is None:
                prev = None
                continue
            if prev is not None:
                gap = phi - prev_phi
                if (gap > 1e-12 and not (b > prev)) or (b < prev):
                    acc.violation(f'c15:monotone:{phi!r}', f'forward decreases / stalls between {prev_phi!r} and {phi!r} ({prev!r} -> {b!r})', {'phi': phi, 'prev': prev_phi})
            prev, prev_phi = b, phi
        # fixed points
        for phi, want in ((0.0, 0.0), (HALF_PI, HALF_PI), (-HALF_PI, -HALF_PI)):
            b = au.forward(phi)
            i = au.inverse(phi)
            if abs(b - want) > 1e-15 or abs(i - want) > 1e-15:
                acc.violation(f'c15:fixed:{phi!r}', f'forward({phi!r}) = {b!r}, inverse = {i!r}; expected {want!r}', {'phi': phi})
    return acc


def work_sequences(task):
    """all operation sequences of length <= 3 over {forward(x), inverse(x), forward(y), inverse(y), forward(-x)} on ONE shared converter
    (and on the module-level singleton used by from_lonlat/to_lonlat): every result must be bit-identical to the same single
    call on a fresh converter - the conversion is a pure function of its argument"""
    import itertools
    from a5.projections.authalic import AuthalicProjection
    from a5.core import coordinate_transforms as ct
    acc = common.Acc()
    xs = task[1]
    for x in xs:
        y = AuthalicProjection().forward(x)
        ops = [('forward', x), ('inverse', x), ('forward', y), ('inverse', y), ('forward', -x)]
        fresh = {op: getattr(AuthalicProjection(), op[0])(op[1]) for op in ops}
        # rejected calls (non-finite or non-numeric latitude) are calls too: whatever they do, they must leave nothing behind
        bad_ops = [('inverse', float('inf')), ('forward', float('nan')), ('inverse', None), ('forward', 'x')]
        for op in bad_ops:
            try:
                fresh[op] = ('value', repr(getattr(AuthalicProjection(), op[0])(op[1])))
            except Exception as e:
                fresh[op] = ('raises', type(e).__name__)
        ops = ops + bad_ops
        for shared_name in ('new instance', 'module singleton'):
            for n in (2, 3):
                for seq in itertools.product(ops, repeat=n):
                    if n == 3 and sum(1 for o in seq if o in bad_ops) != 1:
                        continue          # length 3: exactly one rejected call among two valid ones (keeps the enumeration small)
                    au = AuthalicProjection() if shared_name == 'new instance' else ct.authalic
                    acc.n['evaluations'] += 1
                    acc.strata['op_sequences'] += 1
                    for i, op in enumerate(seq):
                        try:
                            got = getattr(au, op[0])(op[1])
                            if op in bad_ops:
                                got = ('value', repr(got))
                        except Exception as e:
                            got = ('raises', type(e).__name__) if op in bad_ops else repr(e)
                        if got != fresh[op]:
                            acc.violation(f'c15:history:{x!r}:{"/".join(o[0] for o in seq[:i + 1])}',
                                          f'{op[0]}({op[1]!r}) returned {got!r} after {[o[0] + "(" + repr(o[1]) + ")" for o in seq[:i]]} on a shared converter ({shared_name}); alone it returns {fresh[op]!r}',
                                          {'phi': x, 'sequence': [[o[0], o[1]] for o in seq]})
                            break
                    else:
                        acc.n['op_sequences_ok'] += 1
    return acc


def run(tier, t0):
    acc = common.Acc()
    n = 1000000 if tier == "quick" else 4000000
    step = n // 64
    tasks = [('grid', n, lo, min(lo + step, n)) for lo in range(0, n, step)]
    tasks.append(('ladder',))
    tasks = common.rotate(tasks, common.seed())
    common.pmap_merge(work, tasks, acc)
    xs = [-HALF_PI + math.pi * (i + 0.5) / 48 for i in range(48)] + [0.0, HALF_PI, -HALF_PI, 1e-9, HALF_PI - 1e-9]
    common.pmap_merge(work_sequences, [('seq', xs[i::8]) for i in range(8)], acc)
    acc.sample({'phi_rad': 1.0, 'forward': 'AuthalicProjection.forward', 'oracle': 'asin(q(phi)/q(pi/2)), q = (1-e^2)[sin/(1-e^2 sin^2) + atanh(e sin)/e], WGS84'})
    acc.sample({'ladder': '+-10^(-k/8) from 0, +-pi/2 and every multiple of pi/12, k = 0..128'})
    rule = (f'uniform grid of {n} + 1 latitudes on [-90, 90] degrees (consecutive points also checked for strict increase) and log-spaced ladders 10^(-k/8), k = 0..128, towards 0, +-90 and every multiple of 15 degrees from both sides, '
            'through AuthalicProjection.forward/inverse and from_lonlat/to_lonlat (at a rotating menu of 13 longitudes including +-180, -200, -270, 300, 360, 540.5; all of them on the ladders); plus all operation sequences of length 2 and 3 over forward/inverse at 53 latitudes on a shared converter; non-trivial = cases meeting every bound')
    return common.finish(PID, LEVEL, tier, acc, t0, rule, [
        'closed-form WGS84 authalic latitude with f = 1/298.257223563, evaluated through the colatitude above 40 degrees so that the oracle itself has no cancellation',
        'a 6-term trigonometric polynomial has no feature narrower than the grid spacing (3.1e-6 rad quick, 7.9e-7 rad thorough)',
        'on the log ladder strict increase is only required for gaps above 1e-12 rad (adjacent doubles legitimately collide under a map of slope 0.9955)',
    ], exhaustive=False)


def replay(case):
    au, ct = _lib()
    acc = common.Acc()
    if 'sequence' in case:
        acc = work_sequences(('seq', [case['phi']]))
        return [(k, w) for k, w, _ in acc.violations]
    b = check_lat(acc, au, ct, case['phi'], 'replay')
    if 'prev' in case and case['prev'] is not None and b is not None:
        if not (b > au.forward(case['prev'])):
            acc.violation('c15:monotone', 'not increasing', case)
    return [(k, w) for k, w, _ in acc.violations]
