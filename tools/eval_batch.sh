#!/bin/bash
# usage: eval_batch.sh <PROP> <N> [extra checks]   -- copies /tmp/mut/<PROP>/_mutation<N> into seeded/<PROP>-m<N> and evaluates it
cd "$(dirname "$0")/.."
P=$1; N=$2; EXTRA=$3
src=/tmp/mut/$P/_mutation$N
dst=seeded/$P-m${DSTN:-$N}
if [ -f $dst/patch.diff ] && ! cmp -s $src/patch.diff $dst/patch.diff; then echo "REFUSING: $dst already holds a different patch (use DSTN=<n>)"; exit 2; fi
mkdir -p $dst
cp $src/patch.diff $src/demo.py $dst/ 2>/dev/null
cp $src/notes.md $dst/notes.md 2>/dev/null
checks=$P${EXTRA:+,$EXTRA}
/venv/bin/python tools/eval_seeded.py $dst --checks $checks --nproc ${NPROC:-16} > $dst/eval.json 2>$dst/eval.err
/venv/bin/python - "$dst" <<'PY'
import json,sys
d=json.load(open(sys.argv[1]+'/eval.json'))
print(sys.argv[1], 'suite', d.get('suite_passes'), 'demo_fails', d.get('demo_fails_with_patch'), 'demo_ok_repo', d.get('demo_passes_on_repo'), 'detected_by', d.get('detected_by'), 'errors', d.get('machinery_errors'))
PY
